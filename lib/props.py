"""Per-property configuration and the generic stage runner used by /verif/check."""
import json, os, shutil, time, glob

SIM_REAL_DB = ["db", "acl", "audit", "types/api", "server handlers", "client/setec.Client", "tink AEAD (real key)", "tmpfs file system"]

# budgets are seconds of simulation per stage (excluding the build)
live_rule = "one evaluation = one live-store run: a Store built over the scripted service and a recording cache, then a tape-chosen mix of background ticks, explicit refreshes (with/without deadlines), server-side changes (new versions, activation backwards; also attached to individual requests as change-before/after-read), lookups, handle reads by reader tasks, clock advances and the property's own actions, every goroutine switch at a mutex acquisition or service request decided by the tape; distinct = distinct canonical event-log hash; non-trivial = at least one action"
PROPS = {
    "C01": dict(level="exploration", stages=[dict(kind="sim", quick=25, thorough=600)],
                rule="one evaluation = one seeded history (<=60 calls by 1-4 callers with drawn rule sets over <=4 names from an adversarial name/pattern catalogue, DB API or HTTP handlers); distinct = distinct canonical event-log hash; non-trivial = executed at least one call",
                assumptions=["names and patterns are valid UTF-8", "tailnet identity is a stub that returns the scripted rules"]),
    "C02": dict(level="exploration", stages=[dict(kind="sim", quick=25, thorough=600)],
                rule="one evaluation = one seeded sequential history (<=40 calls over <=3 names) judged call by call against the map model plus a full state read-out after every call; distinct = distinct canonical event-log hash; non-trivial = executed at least one call",
                assumptions=["single client, fault-free configuration"]),
    "C03": dict(level="exploration", stages=[dict(kind="sim", quick=25, thorough=600),
                                             dict(kind="mod", module="crashfs", open_ro=True, n_quick=3, n_thorough=20),
                                             dict(kind="mod", module="crashfs", db=True, cache=False, faults="error", kinds=["new-version", "activate", "delete-version", "delete"],
                                                  per_kind_quick=1, per_kind_thorough=6, quick=40, thorough=400)],
                rule="one evaluation = one seeded history with a clean restart after every call (or at random positions), from an empty directory or a committed schema-v1 golden file; distinct = distinct canonical event-log hash; non-trivial = executed at least one call",
                assumptions=["restart is clean (no crash); crash points are C04's", "golden files were written by the pinned tree"]),
    "C04": dict(level="fault_enumeration", stages=[dict(kind="mod", module="crashfs", db=True, cache=False, per_kind_quick=2, per_kind_thorough=24, quick=150, thorough=1500),
                                                   dict(kind="sim", name="conc-disk", engine="dbworld-conc-disk", quick=15, thorough=300)],
                rule="one evaluation = one real run of a child process under ptrace: for each sampled (pre-history, mutating operation) of each kind (database creation, create secret, new version, activate, delete-version, delete) the operation's file-system system calls are recorded, then EVERY call is (a) made to fail with each applicable errno and (b) the process is killed on entry to it and to its successor; afterwards the file is reopened by a fresh process. distinct = distinct (operation, system-call position, fault); non-trivial = the fault was confirmed from strace's own output to have landed on the intended call inside the operation",
                assumptions=["kills land on system-call boundaries (ptrace cannot stop inside a call; partial writes are covered by the trace invariant that only the temporary file is ever written)", "power loss with unsynced data is covered by the invariant that fsync of the temporary file precedes the rename", "tmpfs as the file system"]),
    "C05": dict(level="exploration", stages=[dict(kind="sim", quick=25, thorough=600),
                                             dict(kind="mod", module="crashfs", db=True, cache=True, per_kind_quick=1, per_kind_thorough=8, quick=45, thorough=600)],
                rule="one evaluation = one seeded history with high-entropy marker names/values; after every save every file in the state directory is scanned for every marker in raw, hex, base64 (3 alignments, std+url) and JSON-escaped form; distinct = distinct canonical event-log hash; non-trivial = executed at least one call",
                assumptions=["wholesale replacement by an older valid snapshot is out of scope, as the property says"]),
    "C06": dict(level="exploration", stages=[
                    dict(kind="sim", name="sink", engine="dbworld-audit,dbworld-conc", quick=24, thorough=600),
                    dict(kind="sim", name="race", engine="dbworld-conc-free", race=True, instrumented=False, workers=8, quick=10, thorough=240,
                         env={"VERIF_GOMAXPROCS": "4", "GORACE": "halt_on_error=1 exitcode=66", "VERIF_PRINT_START": "1"})],
                rule="one evaluation = one seeded history of authorised and denied calls with an audit sink that can fail (write error, short write, sync error) at a drawn record; distinct = distinct canonical event-log hash; non-trivial = executed at least one call",
                assumptions=["sink is an in-memory io.Writer with Sync; the real audit.NewFile path is exercised in the concurrent stage"]),
    "C08": dict(level="exploration", stages=[dict(kind="sim", quick=25, thorough=600)],
                rule="one evaluation = one seeded history through Client -> in-process transport -> real handlers, with request corruption and identity faults on a drawn subset of requests, each classified ill-formed / well-formed / unspecified independently of the server; distinct = distinct canonical event-log hash; non-trivial = executed at least one call",
                assumptions=["no sockets: requests are delivered by calling mux.ServeHTTP"]),
    "C10": dict(level="exploration", stages=[dict(kind="sim", quick=20, thorough=600)],
                rule="one evaluation = one construction scenario: declared names (with duplicates, optionally from a tagged struct), a drawn cache kind (none/empty/complete/partial/stale/garbage/read error), a per-(name,attempt) script of failures, hangs and latencies, an optional deadline, stub or file-backed client, or a misconfiguration; virtual time; distinct = distinct canonical event-log hash; non-trivial = at least one request or a return",
                assumptions=["the scripted service honours the caller's context", "'a few seconds' of back-off is judged as <= 10 s of virtual time"]),
    "C16": dict(level="exploration", stages=[dict(kind="sim", quick=20, thorough=600)],
                rule="one evaluation = one lookup scenario: both settings of AllowLookup, 1-4 callers entering through LookupSecret / NewUpdater / Fields.Apply / Secret on colliding names, each with no deadline, a deadline or a scripted cancellation, against a service that answers, fails, is slow (up to minutes) or hangs forever; virtual time up to 45 min; distinct = distinct canonical event-log hash; non-trivial = at least one caller ran",
                assumptions=["the scripted service honours request contexts"]),
    "C11": dict(level="exploration", stages=[dict(kind="sim", quick=25, thorough=600)], rule=live_rule,
                probes_required=["round-ok", "round-failed", "overlapping-refresh", "final-converge", "svc-change-before-read"],
                assumptions=["freshness is judged by version number over the stamp window of the refresh epoch (from the first overlapping call's invoke to the return)", "a hung poll request ends after 2 min like a transport timeout"]),
    "C12": dict(level="exploration", stages=[
                    dict(kind="sim", name="baton", engine="storeworld-live,storeworld-many,storeworld-corrupt", quick=20, thorough=600),
                    dict(kind="sim", name="race", engine="storeworld-race", race=True, instrumented=False, workers=8, quick=12, thorough=240,
                         env={"VERIF_GOMAXPROCS": "4", "GORACE": "halt_on_error=1 exitcode=66", "VERIF_PRINT_START": "1"})],
                rule=live_rule, probes_required=["read-judged"],
                assumptions=["install order is taken from the sequence of cache documents (written under the store's lock right after each install)"]),
    "C13": dict(level="exploration", stages=[dict(kind="sim", quick=25, thorough=600),
                                             dict(kind="mod", module="crashfs", db=False, cache=True, per_kind_quick=3, per_kind_thorough=30, quick=60, thorough=600)], rule=live_rule + "; restarts from the cache; a restart probe (second store from the last document with a dead service, and a FileClient on the same bytes) after every shutdown; separate corruption scenario: NewStore on mutated documents and arbitrary bytes",
                probes_required=["restart-probe", "cache-write-error"],
                assumptions=["FileCache atomic replacement under kills is decided by the crashfs engine"]),
    "C15": dict(level="exploration", stages=[dict(kind="sim", quick=25, thorough=600)], rule=live_rule + "; 1-3 updaters per secret (some created while a round is parked), builders that reject chosen versions, values that count Close",
                probes_required=["updater-rebuilt", "updater-build-failed", "updater-concurrent-get"],
                assumptions=["Gets that overlap on one updater are judged only by the weak invariants (value identity, closers)"]),
    "C17": dict(level="exploration", stages=[dict(kind="sim", quick=40, thorough=600)],
                rule="one evaluation = one timeline of 10-240 min of virtual time: the real backup loop against a real database and the real S3 client over an in-memory bucket, bursts of writes and idle stretches chosen by the tape, a per-upload script of 5xx / transport errors / stalls, writes racing the loop at database-lock and upload park points, cancellation at the end; distinct = distinct canonical event-log hash; non-trivial = at least one upload",
                probes_required=["upload-judged", "terminated", "converged", "s3-5xx", "s3-stall"],
                assumptions=["the bucket honours the request context", "time only passes while no task is runnable"]),
    "C19": dict(level="exploration", stages=[dict(kind="sim", quick=40, thorough=600)], rule=live_rule + "; expiry ages {0,1s,1min,1h}, caches with arbitrary last-access stamps (0, past, future), restarts from the cache, forward jumps of the store's clock",
                probes_required=["expired-drop", "restart", "clock-jump"],
                assumptions=["staleness is compared in whole seconds with one second of slack at the boundary"]),
    "C14": dict(level="exploration", stages=[
                    dict(kind="sim", name="baton", engine="dbworld-conc", quick=20, thorough=600),
                    dict(kind="sim", name="race", engine="dbworld-conc-free", race=True, instrumented=False, workers=8, quick=12, thorough=240,
                         env={"VERIF_GOMAXPROCS": "4", "GORACE": "halt_on_error=1 exitcode=66", "VERIF_PRINT_START": "1"})],
                rule="one evaluation = one concurrent history (2-4 clients x 2-5 calls on 1-2 shared names, DB API or handlers) under a seeded baton schedule with park points at every mutex acquisition, audit write, WhoIs call and transport delivery/response, decided by porcupine against the map model with a final sequential read-out; second stage: the same workloads free-running under the race detector; distinct = distinct canonical event-log hash (schedule + results); non-trivial = at least one scheduling step",
                probes_required=["lock-contention", "porcupine-ok"],
                assumptions=["interleavings are controlled at lock/seam granularity; finer effects are visible only to the race-detector stage, whose reports replay as 'same workload seed, re-run'", "porcupine timeouts (30 s) are counted as inconclusive, never reported"]),
    "C09": dict(level="exploration", stages=[dict(kind="sim", engine="dbworld-cond,dbworld-conc", quick=30, thorough=600),
                                             dict(kind="sim", name="race", engine="dbworld-conc-free", race=True, instrumented=False, workers=8, quick=10, thorough=200,
                                                  env={"VERIF_GOMAXPROCS": "4", "GORACE": "halt_on_error=1 exitcode=66", "VERIF_PRINT_START": "1"}),
                                             dict(kind="mod", module="crashfs", db=True, cache=False, faults="error", kinds=["activate"], per_kind_quick=1, per_kind_thorough=6, quick=30, thorough=300)],
                rule="one evaluation = one seeded history biased to conditional gets with V drawn from {active, older, deleted, larger, 0}, through DB API, handlers+Client and FileClient; distinct = distinct canonical event-log hash; non-trivial = executed at least one call",
                assumptions=["sequential callers; concurrency of activation with conditional gets is C14's"]),
}


def race_in_repo(ck, report):
    """A race counts only if one of the two conflicting accesses is in repository code."""
    secs = report.split("\n\n")[:2]
    for sec in secs:
        for line in sec.splitlines():
            line = line.strip()
            if line.startswith("/") and not line.startswith("/opt/veriftools/go"):
                if line.startswith(ck.REPO.rstrip("/") + "/"):
                    return True
                break
    return False


def panic_in_repo(ck, text):
    """A process killed by a panic that was raised in repository code, on a
    goroutine the harness cannot recover from (e.g. singleflight re-panics in a
    goroutine of its own): the first frame outside the Go runtime and the
    instrumented dependency copy decides. Returns the panic line or None."""
    i = text.find("panic: ")
    if i < 0:
        return None
    head = text[i:i + 300]
    if "test timed out" in head or "out of memory" in head:
        return None
    repo = ck.REPO.rstrip("/") + "/"
    for line in text[i:].splitlines()[1:]:
        line = line.strip()
        if not line.startswith("/"):
            continue
        if line.startswith("/opt/veriftools/go") or "/xsync/" in line or line.startswith(repo + "verifhook/"):
            continue
        if line.startswith(repo):
            return head.splitlines()[0] + " at " + line.split(" ")[0].replace(repo, "")
        return None
    return None


def run_property(ck, b, prop, cfg, tier, seed, replay, t0):
    outroot = os.path.join(b.dir, "out")
    os.makedirs(outroot, exist_ok=True)
    known = ck.load_known()
    if replay:
        return do_replay(ck, b, prop, cfg, replay, outroot)

    totals = []
    violations = []   # dicts: oracle, message, replay
    harness_trouble = []
    stage_info = []
    for i, st in enumerate(cfg["stages"]):
        budget = st.get(tier, st.get("quick", 60))
        if os.environ.get("VERIF_BUDGET_SCALE"):
            budget = max(2, int(budget * float(os.environ["VERIF_BUDGET_SCALE"])))
        outdir = os.path.join(outroot, "stage%d" % i)
        if st["kind"] == "sim":
            binary = b.simtest(race=st.get("race", False), instrumented=st.get("instrumented", True))
            workers = st.get("workers", ck.NCPU)
            sums, crashes = ck.run_workers(binary, prop, seed, budget, workers, outdir,
                                           extra_env=st.get("env"), engine=st.get("engine"),
                                           runs_per_proc=(2000 if st.get("race") else None))
            tot = ck.merge(sums)
            tot["stage"] = st.get("name", st.get("engine", "sim"))
            totals.append(tot)
            for c in list(crashes):
                if "DATA RACE" in c["log"]:
                    # race detector verdict (E4): replay = same workload seed, re-run
                    starts = [l for l in c["log"].splitlines() if l.startswith("START ")]
                    eng, sd = (starts[-1].split()[1], int(starts[-1].split()[2])) if starts else (st.get("engine", ""), 0)
                    i0 = c["log"].find("WARNING: DATA RACE")
                    report = c["log"][i0:i0 + 6000]
                    if not race_in_repo(ck, report):
                        harness_trouble.append("race report whose accesses are not in the repository (harness race):\n" + report[:3000])
                        crashes.remove(c)
                        continue
                    keep = os.path.join(os.environ.get("VERIF_REPLAYS_DIR") or os.path.join(ck.VERIF, "replays"), prop)
                    os.makedirs(keep, exist_ok=True)
                    dst = os.path.join(keep, "%s-%s-race-%d.json" % (prop, eng, sd))
                    json.dump(dict(property=prop, engine=eng, seed=sd, regenerate=True, race_report=report,
                                   violation=dict(oracle=prop + ".race", step=0, message="data race reported by the race detector:\n" + report)),
                              open(dst, "w"), indent=1)
                    violations.append(dict(oracle=prop + ".race", message="data race reported by the race detector:\n" + report, replay=dst))
                    crashes.remove(c)
            for c in list(crashes):
                # a panic raised in repository code that killed the process
                where = panic_in_repo(ck, c.get("panic", ""))
                if not where or not c.get("cur") or st.get("race"):
                    continue
                eng, sd = c["cur"].split()[0], int(c["cur"].split()[1])
                keep = os.path.join(os.environ.get("VERIF_REPLAYS_DIR") or os.path.join(ck.VERIF, "replays"), prop)
                os.makedirs(keep, exist_ok=True)
                dst = os.path.join(keep, "%s-%s-crash-%d.json" % (prop, eng, sd))
                msg = "the process was killed by a panic raised in repository code (not recoverable by the harness): %s\n%s" % (where, c["panic"][:3000])
                json.dump(dict(property=prop, engine=eng, seed=sd, regenerate=True, crash=True,
                               violation=dict(oracle=prop + ".crash", step=0, message=msg)), open(dst, "w"), indent=1)
                conf = ck.replay_once(binary, prop, dst, outdir, extra_env=st.get("env"))
                if panic_in_repo(ck, conf.get("panic", "")):
                    violations.append(dict(oracle=prop + ".crash", message=msg, replay=dst))
                    crashes.remove(c)
                else:
                    harness_trouble.append("a worker died of a panic in repository code for seed %s/%d but the replay did not (harness nondeterminism): %s" % (eng, sd, json.dumps(conf)[:600]))
                    crashes.remove(c)
            for c in crashes:
                harness_trouble.append("worker %d of stage %d exited with %s:\n%s" % (c["worker"], i, c["rc"], c["log"]))
            for path in tot["violations"]:
                rp = json.load(open(path))
                conf = ck.replay_once(binary, prop, path, outdir, extra_env=st.get("env"))
                if st.get("race") and not conf.get("same_oracle"):
                    # free-running stage: the workload is replayed from its seed,
                    # the Go scheduler is not; give the same workload a few more goes
                    for _ in range(7):
                        conf = ck.replay_once(binary, prop, path, outdir, extra_env=st.get("env"))
                        if conf.get("same_oracle"):
                            break
                keep = os.path.join(os.environ.get("VERIF_REPLAYS_DIR") or os.path.join(ck.VERIF, "replays"), prop)
                os.makedirs(keep, exist_ok=True)
                dst = os.path.join(keep, os.path.basename(path))
                rp["confirmed_in_fresh_process"] = bool(conf.get("reproduced"))
                rp["same_oracle_in_fresh_process"] = bool(conf.get("same_oracle"))
                json.dump(rp, open(dst, "w"), indent=1)
                if not conf.get("same_oracle"):
                    harness_trouble.append("replay %s did not reproduce in a fresh process (harness nondeterminism): %s" % (dst, json.dumps(conf)[:600]))
                    continue
                if rp["violation"]["oracle"] == "harness" or rp["violation"]["oracle"].endswith(".harness"):
                    # the harness could not set up or tear down its own world: never a verdict
                    harness_trouble.append("harness failure (replay %s): %s" % (dst, rp["violation"]["message"][:800]))
                    continue
                violations.append(dict(oracle=rp["violation"]["oracle"], message=rp["violation"]["message"], replay=dst))
        else:
            mod = __import__(st["module"])
            res = mod.run_stage(ck, b, prop, st, tier, seed, outdir)
            totals.append(res["totals"])
            violations.extend(res.get("violations", []))
            harness_trouble.extend(res.get("trouble", []))

    # ---- verdict ----
    new, listed = [], []
    for v in violations:
        f = ck.match_known(known, prop, v)
        (listed if f else new).append((v, f))
    wall = time.time() - t0
    write_evidence(ck, prop, cfg, tier, seed, totals, len(new), wall, listed)
    for v, f in listed:
        print("KNOWN-FINDING: property=%s %s (replay=%s)" % (prop, f["what"], v["replay"]))
    for v, _ in new:
        print("VIOLATION property=%s replay=%s" % (prop, v["replay"]), flush=True)
        try:
            print("  oracle: %s" % v["oracle"])
            print("  " + v["message"].replace("\n", "\n  ")[:1500], flush=True)
        except BrokenPipeError:
            pass
    if new:
        return 1
    if harness_trouble:
        for h in harness_trouble:
            print("HARNESS: " + h)
        return 2
    # reach probes stuck at zero fail the thorough tier
    need = cfg.get("probes_required", [])
    if tier == "thorough" and need:
        allp = {}
        for t in totals:
            for k, n in t.get("probes", {}).items():
                allp[k] = allp.get(k, 0) + n
            for k, n in t.get("faults", {}).items():
                allp[k] = allp.get(k, 0) + n
        missing = [p for p in need if not allp.get(p)]
        if missing:
            print("HARNESS: reach probes stuck at zero: %s" % missing)
            return 2
    runs = sum(t.get("runs", 0) for t in totals)
    print("OK property=%s tier=%s seed=%d runs=%d wall=%.1fs" % (prop, tier, seed, runs, wall))
    return 0


def do_replay(ck, b, prop, cfg, replay, outroot):
    rp = json.load(open(replay))
    if rp.get("stage_module"):
        mod = __import__(rp["stage_module"])
        return mod.replay(ck, b, prop, rp, outroot)
    st = cfg["stages"][0]
    for s in cfg["stages"]:
        if s["kind"] == "sim" and (s.get("engine") in (None, rp.get("engine"))):
            st = s
    binary = b.simtest(race=st.get("race", False), instrumented=st.get("instrumented", True))
    conf = ck.replay_once(binary, prop, os.path.abspath(replay), outroot, extra_env=st.get("env"))
    print(json.dumps(conf, indent=1)[:6000])
    if rp.get("crash"):
        if panic_in_repo(ck, conf.get("panic", "")):
            print("VIOLATION property=%s replay=%s" % (prop, os.path.abspath(replay)))
            return 1
        print("replay did not reproduce the crash on this tree")
        return 0
    if conf.get("same_oracle"):
        print("VIOLATION property=%s replay=%s" % (prop, os.path.abspath(replay)))
        return 1
    print("replay did not reproduce the violation on this tree")
    return 0


def write_evidence(ck, prop, cfg, tier, seed, totals, nviol, wall, listed):
    runs = sum(t.get("runs", 0) for t in totals)
    digests = set()
    for t in totals:
        digests.update(t.get("digests", []))
    distinct = len(digests) + sum(t.get("distinct_extra", 0) for t in totals)
    faults, probes, per_engine = {}, {}, {}
    samples, real, stub = [], set(), set()
    sim_time = 0.0
    for t in totals:
        for k, n in t.get("faults", {}).items():
            faults[k] = faults.get(k, 0) + n
        for k, n in t.get("probes", {}).items():
            probes[k] = probes.get(k, 0) + n
        for k, n in t.get("per_engine", {}).items():
            per_engine[k] = per_engine.get(k, 0) + n
        samples.extend(t.get("samples", [])[:3])
        real.update(t.get("real", []))
        stub.update(t.get("stub", []))
        sim_time += t.get("sim_time_s", 0)
    ev = {
        "property_id": prop, "tier": tier, "seed": seed, "level": cfg["level"],
        "coverage": {
            "evaluations": runs,
            "distinct_nontrivial": distinct,
            "rule": cfg["rule"],
            "samples": samples[:6] or [{"note": "no sample recorded"}],
            "runs_per_hour": int(runs / max(wall, 1e-3) * 3600),
            "seeds": "run seed = hash(VERIF_SEED=%d, property, index), index 0..%d" % (seed, max(runs - 1, 0)),
            "simulated_time_s": round(sim_time, 3),
            "steps": sum(t.get("steps", 0) for t in totals),
            "operations": sum(t.get("ops", 0) for t in totals),
            "faults_fired": faults,
            "reach_probes": probes,
            "runs_per_engine": per_engine,
            "components_real": sorted(real),
            "components_stub": sorted(stub),
            "known_findings_seen": [f["id"] for _, f in listed],
            "exhaustive": False,
        },
        "assumptions": cfg.get("assumptions", []),
        "wall_s": round(wall, 2),
        "violations": nviol,
    }
    for t in totals:
        for k, v in (t.get("extra") or {}).items():
            ev["coverage"][k] = v
    evdir = os.environ.get("VERIF_EVIDENCE_DIR") or os.path.join(ck.VERIF, "evidence")
    os.makedirs(evdir, exist_ok=True)
    json.dump(ev, open(os.path.join(evdir, prop + ".json"), "w"), indent=1)
