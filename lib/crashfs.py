"""Engine E3 (crashfs): the disk seam is the system-call boundary.

A child built from the current tree runs real DB operations (or
FileCache.Write) on its main thread, bracketing the operation under test with
marker stat calls. The parent runs it under strace (ptrace):
  record  - full trace of the operation's file-system system calls
  error   - -e inject=<syscall>:error=<errno>:when=<k> for every call x errno
  kill    - -e inject=<syscall>:signal=SIGKILL:when=<k> on entry to every call
            and to the end marker (= before and after every call)
Each injected run is validated from strace's own output: the (INJECTED) /
killed line must be the intended call inside the window, else the run is
inconclusive (counted), never a verdict.
"""
import base64, concurrent.futures, hashlib, json, os, random, re, shutil, subprocess, tempfile, time

TRACE_SET = "openat,write,pwrite64,fchmod,fchmodat,fsync,fdatasync,close,rename,renameat,renameat2,unlink,unlinkat,newfstatat,ftruncate,linkat,fchown,sync_file_range"

ERRNOS = {
    "newfstatat": ["EIO", "EACCES"],
    "openat": ["ENOSPC", "EACCES", "EMFILE", "EDQUOT", "EIO"],
    "write": ["ENOSPC", "EIO", "EDQUOT", "EINTR"],
    "pwrite64": ["ENOSPC", "EIO"],
    "fchmod": ["EPERM", "EIO"],
    "fsync": ["EIO", "ENOSPC"],
    "fdatasync": ["EIO"],
    "close": ["EIO", "EINTR"],
    "renameat": ["EXDEV", "EIO", "ENOSPC", "EACCES"],
    "renameat2": ["EXDEV", "EIO"],
    "rename": ["EXDEV", "EIO"],
    "ftruncate": ["EIO"],
    "unlinkat": ["EIO"],
}

FOLLOW_NAME = "zz-follow"
FOLLOW_VAL = b"after-the-fault"


def unhex(s):
    """decode strace -xx string body (\\xNN sequences)"""
    return bytes(int(h, 16) for h in re.findall(r"\\x([0-9a-f]{2})", s))


LINE = re.compile(r"^(\d+)\s+(\w+)\((.*)$")


RESUMED = re.compile(r"^(\d+)\s+<\.\.\.\s+(\w+)\s+resumed>(.*)$")


def parse_trace(text):
    """Return (mainpid, entries). entries: dict(pid,name,raw,ret,injected,strs).
    With -f, a call interrupted by another thread's output is printed as
    `name(args <unfinished ...>` and later `<... name resumed> rest) = ret`;
    the two halves are merged (the entry keeps the position of its first half)."""
    entries = []
    mainpid = None
    pending = {}

    def finish(e):
        rest = e["raw"]
        e["injected"] = "(INJECTED)" in rest
        e["strs"] = [unhex(x) for x in re.findall(r'"((?:\\x[0-9a-f]{2})*)"', rest)]
        r = re.search(r"\)\s+=\s+(-?\d+|\?)", rest)
        e["ret"] = r.group(1) if r else None

    for line in text.splitlines():
        m = RESUMED.match(line)
        if m:
            pid = int(m.group(1))
            e = pending.pop(pid, None)
            if e is not None:
                e["raw"] = e["raw"].replace("<unfinished ...>", "") + m.group(3)
                e["unfinished"] = False
                finish(e)
            continue
        m = LINE.match(line)
        if not m:
            continue
        pid, name, rest = int(m.group(1)), m.group(2), m.group(3)
        if mainpid is None:
            mainpid = pid
        e = dict(pid=pid, name=name, raw=rest, unfinished="<unfinished ...>" in rest)
        finish(e)
        if e["unfinished"]:
            pending[pid] = e
        entries.append(e)
    return mainpid, entries


def window(entries, mainpid):
    """indices (into main-thread entry list) of the operation window"""
    main = [e for e in entries if e["pid"] == mainpid]
    b = e_ = None
    for i, e in enumerate(main):
        if e["name"] == "newfstatat" and e["strs"] and e["strs"][0] == b"/verif-marker-begin":
            b = i
        if e["name"] == "newfstatat" and e["strs"] and e["strs"][0] == b"/verif-marker-end":
            e_ = i
    return main, b, e_


def ordinal(main, idx):
    """1-based ordinal of main[idx] among the main thread's calls of that name"""
    name = main[idx]["name"]
    return sum(1 for e in main[: idx + 1] if e["name"] == name)


class Engine:
    def __init__(self, ck, b, prop, outdir, seed):
        self.ck, self.b, self.prop, self.outdir, self.seed = ck, b, prop, outdir, seed
        self.child = b.gobuild("./cmd/crashchild", "crashchild")
        os.makedirs(outdir, exist_ok=True)
        self.key = os.path.join(outdir, "kek.json")
        self.run_child({"mode": "genkey", "key": self.key})
        self.stats = dict(runs=0, inconclusive=0, faults={}, probes={}, samples=[], windows=0)
        self.violations, self.trouble = [], []
        self.distinct = set()

    def run_child(self, script, inject=None, trace_path=None, inject2=None):
        cmd = [self.child]
        if inject is not None or trace_path is not None:
            cmd = ["strace", "-f", "-o", trace_path, "-e", "trace=" + TRACE_SET, "-xx", "-s", "200000"]
            if inject:
                cmd += ["-e", "inject=" + inject]
            if inject2:
                cmd += ["-e", "inject=" + inject2]
            cmd += [self.child]
        r = subprocess.run(cmd, input=json.dumps(script).encode(), capture_output=True, timeout=120)
        outs = []
        for l in r.stdout.decode(errors="replace").splitlines():
            try:
                outs.append(json.loads(l))
            except Exception:
                pass
        return r.returncode, outs, r.stderr.decode(errors="replace")

    def fresh_dir(self):
        d = tempfile.mkdtemp(prefix="cf-", dir=self.outdir)
        os.makedirs(os.path.join(d, "state"))
        return d

    def script(self, case, d):
        s = dict(case["script"])
        s["dir"] = os.path.join(d, "state")
        s["key"] = self.key
        return s

    def prepare_cache(self, case, d):
        if case["script"]["mode"] == "cache" and case.get("old_cache") is not None:
            p = os.path.join(d, "state", "cache.json")
            with open(p, "wb") as f:
                f.write(case["old_cache"])
            # the old file may have come from elsewhere (restored, copied,
            # created by another tool) with a wider mode
            os.chmod(p, case.get("old_mode", 0o600))

    def lax_files(self, case, state):
        """Files of the state directory readable by group/others, except the
        pre-existing cache file as long as it is still the pre-existing one."""
        out = []
        for fn in sorted(os.listdir(state)):
            p = os.path.join(state, fn)
            mode = os.stat(p).st_mode & 0o777
            if not mode & 0o077:
                continue
            if fn == "cache.json" and case.get("old_cache") is not None and case.get("old_mode", 0o600) & 0o077:
                if open(p, "rb").read() == case["old_cache"]:
                    continue
            out.append("file %s left with mode %o (secret-bearing files are created owner-only, whatever they replace)" % (fn, mode))
        return out

    # ---- record ----
    def record(self, case):
        d = self.fresh_dir()
        try:
            self.prepare_cache(case, d)
            tp = os.path.join(d, "trace")
            rc, outs, err = self.run_child(self.script(case, d), trace_path=tp)
            if rc != 0:
                return None, "record run failed rc=%s: %s" % (rc, err[-400:])
            mainpid, entries = parse_trace(open(tp).read())
            main, wb, we = window(entries, mainpid)
            if wb is None or we is None:
                return None, "markers not found in trace"
            ev = {o["ev"]: o for o in outs}
            live_name = b"/cache.json" if case["script"]["mode"] == "cache" else b"/secrets.db"
            live_fds = set()
            for e in entries:
                if e["name"] == "openat" and e["strs"] and e["strs"][0].endswith(live_name) and e["ret"] and e["ret"].isdigit():
                    if any(f in e["raw"] for f in ("O_WRONLY", "O_RDWR")):
                        live_fds.add(e["ret"])
            return dict(main=main, wb=wb, we=we, ev=ev, live_fds=live_fds, lax=self.lax_files(case, os.path.join(d, "state"))), None
        finally:
            shutil.rmtree(d, ignore_errors=True)

    # ---- trace invariants (C04: separate file, flushed before replace, never in place; C05: 0600) ----
    def invariants(self, case, rec):
        live = (b"secrets.db" if case["script"]["mode"] != "cache" else b"cache.json")
        main, wb, we = rec["main"], rec["wb"], rec["we"]
        win = main[wb + 1 : we]
        bad = list(rec.get("lax", []))
        tmpfd, tmppath, last_write, synced, renamed = None, None, -1, -1, -1
        for i, e in enumerate(win):
            n = e["name"]
            if n == "openat" and e["strs"]:
                p = e["strs"][0]
                flags = e["raw"]
                if p.endswith(b"/" + live):
                    if any(f in flags for f in ("O_WRONLY", "O_RDWR", "O_TRUNC", "O_APPEND")):
                        bad.append("the live file %s is opened for writing (%s): it must never be written in place" % (live.decode(), re.search(r"O_\w+(\|O_\w+)*", flags).group(0)))
                elif os.path.dirname(p).endswith(b"/state") and "O_CREAT" in flags:
                    tmpfd, tmppath = e["ret"], p
                    m = re.search(r",\s*0(\d{3})\)", flags)
                    if m and m.group(1)[1:] != "00":
                        bad.append("temporary file created with mode 0%s (secret-bearing files must be owner-only)" % m.group(1))
            elif n in ("write", "pwrite64"):
                fd = e["raw"].split(",")[0].strip()
                if tmpfd is not None and fd == tmpfd:
                    last_write = i
                elif fd in rec.get("live_fds", set()):
                    # (descriptors the Go runtime writes to on this thread -
                    # eventfd wake-ups, pipes - are none of our business; only a
                    # descriptor opened on the live path counts)
                    bad.append("write to descriptor %s, which was opened on the live file" % fd)
            elif n in ("fsync", "fdatasync"):
                fd = e["raw"].split(")")[0].strip()
                if fd == tmpfd:
                    synced = i
            elif n == "fchmod":
                mm = re.search(r",\s*0(\d{3})", e["raw"])
                if mm and mm.group(1)[1:] != "00":
                    bad.append("fchmod to 0%s (secret-bearing files must be owner-only)" % mm.group(1))
            elif n in ("renameat", "renameat2", "rename") and len(e["strs"]) >= 2:
                src, dst = e["strs"][0], e["strs"][1]
                if dst.endswith(b"/" + live):
                    renamed = i
                    if tmppath is None or src != tmppath:
                        bad.append("the live file is replaced by %r, not by the temporary file that was written" % src)
            elif n in ("ftruncate",):
                bad.append("ftruncate during a save")
        mutating = case.get("mutating", True)
        if mutating:
            if last_write < 0:
                bad.append("no write to a temporary file was seen during the save")
            elif synced < last_write:
                bad.append("new contents are not flushed (fsync) after the last write to the temporary file")
            if renamed < 0:
                bad.append("the live file is not replaced by rename")
            elif synced > renamed or synced < 0:
                bad.append("the temporary file is renamed over the live file before it was flushed to stable storage")
        return bad

    # ---- one injected run ----
    def injected(self, case, rec, widx, kind, errno=None):
        """kind: 'error' | 'kill' | 'error2' (second-order: the fault is followed
        by a failing clean-up unlink). widx: index into main-thread entries."""
        main = rec["main"]
        target = main[widx]
        name = target["name"]
        k = ordinal(main, widx)
        second = None
        if kind == "error2":
            # the error path removes the temporary file: make that fail too
            n_unlink = sum(1 for e in main[: rec["wb"]] if e["name"] == "unlinkat")
            second = "unlinkat:error=EIO:when=%d" % (n_unlink + 1)
            kind = "error"
        if kind == "error":
            inj = "%s:error=%s:when=%d" % (name, errno, k)
        else:
            inj = "%s:signal=SIGKILL:when=%d" % (name, k)
        d = self.fresh_dir()
        res = dict(case=case["name"], syscall=name, index=widx - rec["wb"], kind=kind, errno=errno, inject=inj)
        try:
            self.prepare_cache(case, d)
            tp = os.path.join(d, "trace")
            rc, outs, err = self.run_child(self.script(case, d), inject=inj, trace_path=tp, inject2=second)
            if second:
                res["kind"] = "error+failed-cleanup"
            ttext = open(tp).read() if os.path.exists(tp) else ""
            mainpid, entries = parse_trace(ttext)
            m2 = [e for e in entries if e["pid"] == mainpid]
            # validate that the fault landed on the intended call
            hit = None
            if kind == "error":
                for i, e in enumerate(m2):
                    if e["injected"]:
                        hit = i
                        break
            else:
                # killed on entry: last main-thread line is the unfinished target call
                if "+++ killed by SIGKILL +++" in ttext and m2:
                    hit = len(m2) - 1
            okhit = hit is not None and m2[hit]["name"] == name
            if okhit:
                # inside the window? begin marker must precede, end marker must not (unless target is the end marker)
                names_before = [e for e in m2[:hit] if e["name"] == "newfstatat" and e["strs"] and e["strs"][0] == b"/verif-marker-begin"]
                ended = [e for e in m2[:hit] if e["name"] == "newfstatat" and e["strs"] and e["strs"][0] == b"/verif-marker-end"]
                okhit = bool(names_before) and not ended
            if not okhit:
                res["verdict"] = "inconclusive"
                return res
            ev = {o["ev"]: o for o in outs}
            res["verdict"] = "ok"
            msgs = []
            # never written in place, on the error / recovery path either
            live = b"/cache.json" if case["script"]["mode"] == "cache" else b"/secrets.db"
            seen_begin = False
            for e2 in m2:
                if e2["name"] == "newfstatat" and e2["strs"] and e2["strs"][0] == b"/verif-marker-begin":
                    seen_begin = True
                elif e2["name"] == "newfstatat" and e2["strs"] and e2["strs"][0] == b"/verif-marker-end":
                    break
                elif seen_begin and e2["name"] == "openat" and e2["strs"] and e2["strs"][0].endswith(live):
                    if any(f in e2["raw"] for f in ("O_WRONLY", "O_RDWR", "O_TRUNC", "O_APPEND")):
                        msgs.append("after the injected fault the live file was opened for writing (%s): it must never be written in place" % re.search(r"O_\w+(\|O_\w+)*", e2["raw"]).group(0))
            state = os.path.join(d, "state")
            if kind == "kill":
                msgs += self.judge_after_kill(case, rec, d)
            else:
                msgs += self.judge_after_error(case, rec, ev, rc, err, d)
            # leftovers: owner-only, no plaintext
            msgs += self.lax_files(case, state)
            for fn in os.listdir(state):
                p = os.path.join(state, fn)
                data = open(p, "rb").read()
                if case["script"]["mode"] != "cache":
                    for mk in case.get("markers", []):
                        for enc in (mk, base64.b64encode(mk), mk.hex().encode()):
                            if len(mk) >= 8 and enc in data:
                                msgs.append("file %s contains a secret value in the clear (%r)" % (fn, enc[:24]))
            if msgs:
                res["verdict"] = "violation"
                res["messages"] = msgs
            return res
        except subprocess.TimeoutExpired:
            res["verdict"] = "inconclusive"
            return res
        finally:
            shutil.rmtree(d, ignore_errors=True)

    def verify(self, case, d):
        mode = "verify-cache" if case["script"]["mode"] == "cache" else "verify"
        rc, outs, err = self.run_child({"mode": mode, "dir": os.path.join(d, "state"), "key": self.key})
        for o in outs:
            if o.get("ev") == "verify":
                return o
        return {"err": "verifier produced no output rc=%s %s" % (rc, err[-300:])}

    def judge_after_kill(self, case, rec, d):
        msgs = []
        v = self.verify(case, d)
        pre, post = rec["ev"]["pre"], rec["ev"]["post"]
        if case["script"]["mode"] == "cache":
            old = case.get("old_cache")
            new = base64.b64decode(case["script"]["cache"])
            got = base64.b64decode(v.get("data") or "") if v.get("data") else b""
            if v.get("err") and old is not None:
                msgs.append("after a kill the cache file cannot be read: %s" % v["err"])
            elif not v.get("err") or old is not None:
                if got not in ((old or b""), new):
                    msgs.append("after a kill the cache file holds neither the old nor the new document (%d bytes)" % len(got))
            if v.get("mode") and int(v["mode"], 8) & 0o077 and not (got == (old or b"") and "%o" % case.get("old_mode", 0o600) == v["mode"]):
                msgs.append("after a kill the cache file has mode %s" % v["mode"])
            return msgs
        if v.get("err"):
            msgs.append("after a kill the database does not open: %s" % v["err"])
        elif v.get("dump") not in (pre.get("dump"), post.get("dump")):
            msgs.append("after a kill the database holds neither the pre-call nor the post-call state:\n got: %s\n pre: %s\npost: %s" % (v.get("dump"), pre.get("dump"), post.get("dump")))
        return msgs

    def judge_after_error(self, case, rec, ev, rc, err, d):
        msgs = []
        pre_r, post_r = rec["ev"]["pre"], rec["ev"]["post"]
        if rc != 0 or "op" not in ev:
            return ["after an injected error the process did not complete the call: rc=%s %s" % (rc, err[-300:])]
        op = ev["op"]
        if case["script"]["mode"] == "cache":
            post = ev.get("post", {})
            if op["err"]:
                if post.get("sha") != ev["pre"].get("sha"):
                    msgs.append("FileCache.Write reported %r but the cache file changed" % op["err"])
            else:
                if base64.b64decode(post.get("data") or "") != base64.b64decode(case["script"]["cache"]):
                    msgs.append("FileCache.Write reported success but the file does not hold the new document")
            return msgs
        pre, post, fin = ev.get("pre", {}), ev.get("post", {}), ev.get("final", {})
        if case["script"]["mode"] == "create":
            if op["err"]:
                r = ev.get("retry", {})
                if r.get("err"):
                    msgs.append("database creation failed with %r and a retry failed too: %s" % (op["err"], r["err"]))
            if fin.get("err") or not fin:
                msgs.append("after a failed creation later calls do not work: %s" % fin)
            return msgs
        if self.prop == "C05" and "kek" in pre and (post.get("kek") != pre.get("kek") or fin.get("kek") != pre.get("kek")):
            msgs.append("the key-encryption key was consulted %s time(s) after Open (during a call whose save met an I/O error, or its aftermath): a running server must not depend on the key service" % (
                (fin.get("kek") or post.get("kek") or 0) - pre.get("kek")))
        if op["err"]:
            if post.get("sha") != pre.get("sha"):
                msgs.append("the call reported %r but the database file changed on disk" % op["err"])
            if post.get("dump") != pre.get("dump"):
                msgs.append("the call reported %r but the running server now serves a different state:\n pre: %s\npost: %s" % (op["err"], pre.get("dump"), post.get("dump")))
            if post.get("gen") != pre.get("gen"):
                msgs.append("the call reported %r but the write generation advanced from %s to %s" % (op["err"], pre.get("gen"), post.get("gen")))
            # later calls succeed normally, from the pre-state
            fol = fin.get("follow") or []
            if fin.get("err") or any(not f.endswith("/") for f in fol):
                msgs.append("after the failed call later calls do not succeed: %s %s" % (fol, fin.get("err")))
            else:
                want = add_entry(pre.get("dump", ""), FOLLOW_NAME, FOLLOW_VAL)
                if fin.get("dump") != want:
                    msgs.append("after the failed call a later put did not produce pre-state + that put:\n got: %s\nwant: %s" % (fin.get("dump"), want))
                v = self.verify(case, d)
                if v.get("err") or v.get("dump") != fin.get("dump"):
                    msgs.append("after the failed call and a later put the file on disk does not hold the served state: %s" % (v.get("err") or v.get("dump")))
        else:
            # the error was absorbed (e.g. on the advisory stat, or EINTR retried): post-state
            if post.get("dump") != post_r.get("dump"):
                msgs.append("the call reported success despite the injected error but the state is not the post-call state")
            v = self.verify(case, d)
            if v.get("err"):
                msgs.append("the call reported success despite the injected error but the file does not open: %s" % v["err"])
        return msgs


def add_entry(dump, name, val):
    ents = [e for e in dump.split(";") if e]
    ents.append('"%s" act=1 get=1 cond=304 1=%s' % (name, val.hex()))
    ents.sort(key=lambda e: e.split('"')[1])
    return "".join(e + ";" for e in ents)


# ---- case generation (a tiny model keeps generated operations valid) ----

def gen_cases(rng, per_kind, want_cache, want_db, kinds=None):
    cases = []
    kinds = kinds or ["create", "new-secret", "new-version", "activate", "delete-version", "delete"]
    n = 0
    if want_db:
        for kind in kinds:
            for rep in range(per_kind):
                n += 1
                model = {}  # name -> dict(vers={v:bytes}, act, latest)
                pre = []
                markers = []

                def val():
                    m = ("MARK%016x" % rng.getrandbits(64)).encode()
                    markers.append(m)
                    extra = rng.choice([b"", b"\x00\xff binary", b"x" * rng.choice([10, 3000, 70000])])
                    return m + extra

                def put(name):
                    v = val()
                    s = model.setdefault(name, dict(vers={}, act=0, latest=0))
                    s["latest"] += 1
                    s["vers"][s["latest"]] = v
                    if s["act"] == 0:
                        s["act"] = 1
                    pre.append(dict(k="put", n=name, v=base64.b64encode(v).decode()))

                for _ in range(rng.randint(0, 5)):
                    put(rng.choice(["a", "b", "dev/c"]))
                test = None
                if kind == "create":
                    pre, model = [], {}
                elif kind == "new-secret":
                    test = dict(k="put", n="fresh/secret", v=base64.b64encode(val()).decode())
                else:
                    put("a")
                    put("a")
                    if rng.random() < 0.7:
                        put("a")
                    s = model["a"]
                    if rng.random() < 0.5:
                        # a non-default active version
                        s["act"] = rng.choice(list(s["vers"]))
                        pre.append(dict(k="activate", n="a", r=s["act"]))
                    if kind == "new-version":
                        test = dict(k="put", n="a", v=base64.b64encode(val()).decode())
                    elif kind == "activate":
                        test = dict(k="activate", n="a", r=rng.choice([v for v in s["vers"] if v != s["act"]]))
                    elif kind == "delete-version":
                        cand = [v for v in s["vers"] if v != s["act"]]
                        inner = [v for v in cand if v != s["latest"]]
                        if inner and rng.random() < 0.7:
                            cand = inner  # not the newest: a wrong rollback shows
                        test = dict(k="delver", n="a", r=rng.choice(cand))
                    elif kind == "delete":
                        test = dict(k="delete", n="a")
                script = dict(mode="create" if kind == "create" else "db", pre=pre, test=test,
                              follow=[dict(k="put", n=FOLLOW_NAME, v=base64.b64encode(FOLLOW_VAL).decode())])
                cases.append(dict(name="%s-%d" % (kind, rep), kind=kind, script=script, markers=markers))
    if want_cache:
        for rep in range(max(1, per_kind)):
            old = None
            if rng.random() < 0.75:
                old = json.dumps({"old": {"secret": {"Value": base64.b64encode(b"old-%d" % rep).decode(), "Version": 1}, "lastAccess": "1"}}).encode()
            new = json.dumps({"new%d" % rep: {"secret": {"Value": base64.b64encode(os.urandom(rng.choice([8, 4000]))).decode(), "Version": 2}, "lastAccess": "2"}}).encode()
            cases.append(dict(name="cache-%d" % rep, kind="cache-write", old_cache=old, old_mode=rng.choice([0o600, 0o600, 0o644, 0o640, 0o666]),
                              script=dict(mode="cache", cache=base64.b64encode(new).decode())))
    return cases


def open_readonly_stage(ck, b, prop, st, tier, seed, outdir):
    """C03: Opening never modifies the file. A fresh process opens an existing
    database under strace: on the live path only read-only opens and stats are
    allowed; no write, rename, unlink, truncate, chmod anywhere in the state
    directory; bytes, inode and mtime are unchanged afterwards."""
    t0 = time.time()
    eng = Engine(ck, b, prop, outdir, seed)
    rng = random.Random("%s-open-%d" % (prop, seed))
    n = st.get("n_" + tier, 3)
    cases = gen_cases(rng, max(1, n // 2), False, True)[:n]
    viol, done, samples = [], 0, []
    for case in cases:
        if case["script"]["mode"] != "db":
            continue
        d = eng.fresh_dir()
        try:
            rc, outs, err = eng.run_child(eng.script(case, d))
            if rc != 0:
                eng.trouble.append("open-ro: setup failed: " + err[-200:])
                continue
            live = os.path.join(d, "state", "secrets.db")
            before = open(live, "rb").read()
            st0 = os.stat(live)
            tp = os.path.join(d, "trace")
            rc, outs, err = eng.run_child({"mode": "verify", "dir": os.path.join(d, "state"), "key": eng.key}, trace_path=tp)
            mainpid, entries = parse_trace(open(tp).read())
            bad = []
            calls = []
            for e in entries:
                touches = any(b"/state/" in x or x.endswith(b"/state") for x in e["strs"])
                if e["name"] in ("openat",) and touches:
                    calls.append("openat " + re.search(r"O_\w+(\|O_\w+)*", e["raw"]).group(0))
                    if any(f in e["raw"] for f in ("O_WRONLY", "O_RDWR", "O_TRUNC", "O_APPEND", "O_CREAT")):
                        bad.append("Open opened %r for writing: %s" % (e["strs"][0][-30:], e["raw"][:120]))
                if e["name"] in ("rename", "renameat", "renameat2", "unlink", "unlinkat", "ftruncate", "fchmod", "fchmodat", "linkat") and (touches or e["name"] in ("ftruncate", "fchmod")):
                    bad.append("Open issued %s(%s)" % (e["name"], e["raw"][:100]))
                if e["name"] in ("write", "pwrite64") and e["raw"].split(",")[0].strip() not in ("1", "2"):
                    bad.append("Open wrote to descriptor %s" % e["raw"].split(",")[0])
            st1 = os.stat(live)
            if open(live, "rb").read() != before or st0.st_ino != st1.st_ino or st0.st_mtime_ns != st1.st_mtime_ns:
                bad.append("the file changed across Open (bytes/inode/mtime)")
            done += 1
            if len(samples) < 2:
                samples.append(dict(case=case["name"], open_syscalls=calls))
            for m in bad:
                viol.append(dict(oracle=prop + ".open-readonly", message="%s: %s" % (case["name"], m), case=case))
        finally:
            shutil.rmtree(d, ignore_errors=True)
    out_viol = []
    keep = os.path.join(os.environ.get("VERIF_REPLAYS_DIR") or os.path.join(ck.VERIF, "replays"), prop)
    for v in viol[:3]:
        os.makedirs(keep, exist_ok=True)
        case = dict(v["case"])
        case["markers"] = [m.decode() for m in case.get("markers", [])]
        dst = os.path.join(keep, "%s-crashfs-openro-%s.json" % (prop, v["case"]["name"]))
        json.dump(dict(property=prop, stage_module="crashfs", engine="crashfs-openro", seed=seed, case=case, fault=dict(kind="open-readonly"),
                       violation=dict(oracle=v["oracle"], step=0, message=v["message"])), open(dst, "w"), indent=1)
        out_viol.append(dict(oracle=v["oracle"], message=v["message"], replay=dst))
    totals = dict(runs=done, nontrivial=done, steps=0, ops=done, sim_time_s=0.0, wall_s=time.time() - t0, faults={}, probes={"open-traced": done},
                  per_engine={"crashfs-openro": done}, digests=set(), distinct_extra=done, samples=samples,
                  real=["db.Open load path", "Linux kernel file system (tmpfs)"], stub=[], violations=[])
    return dict(totals=totals, violations=out_viol, trouble=eng.trouble)


def run_stage(ck, b, prop, st, tier, seed, outdir):
    if st.get("open_ro"):
        return open_readonly_stage(ck, b, prop, st, tier, seed, outdir)
    t0 = time.time()
    eng = Engine(ck, b, prop, outdir, seed)
    rng = random.Random(seed * 1000003 + hash(prop) % 1000)
    rng = random.Random("%s-%d" % (prop, seed))
    per_kind = st.get("per_kind_" + tier, st.get("per_kind_quick", 1))
    cases = gen_cases(rng, per_kind, st.get("cache", False), st.get("db", True), st.get("kinds"))
    budget = st.get(tier, st.get("quick", 60))
    jobs = []
    recs = {}
    samples = []
    # record runs + invariants
    with concurrent.futures.ThreadPoolExecutor(ck.NCPU) as ex:
        for case, (rec, err) in zip(cases, ex.map(eng.record, cases)):
            if rec is None:
                eng.trouble.append("%s: %s" % (case["name"], err))
                continue
            recs[case["name"]] = rec
            eng.stats["windows"] += 1
            win = rec["main"][rec["wb"] + 1 : rec["we"]]
            if len(samples) < 4:
                samples.append(dict(case=case["name"], window=[e["name"] for e in win]))
            bad = eng.invariants(case, rec)
            eng.stats["probes"]["trace-invariants-checked"] = eng.stats["probes"].get("trace-invariants-checked", 0) + 1
            for m in bad:
                eng.violations.append(dict(case=case, fault=dict(kind="trace-invariant"), message="%s (%s): %s" % (case["name"], case["kind"], m), oracle=prop + ".trace"))
            for wi in range(rec["wb"] + 1, rec["we"] + 1):
                e = rec["main"][wi]
                if st.get("faults") != "error":
                    jobs.append((case, wi, "kill", None))
                if wi < rec["we"]:
                    for en in ERRNOS.get(e["name"], []):
                        jobs.append((case, wi, "error", en))
                    if e["name"] in ("write", "fsync", "fchmod", "close", "renameat", "renameat2", "rename"):
                        # second-order: the same failure, and the clean-up fails too
                        jobs.append((case, wi, "error2", "EIO"))
    # injected runs (bounded by the budget)
    deadline = t0 + budget
    done = 0

    def work(j):
        if time.time() > deadline:
            return None
        case, wi, kind, en = j
        return eng.injected(case, recs[case["name"]], wi, kind, en)

    with concurrent.futures.ThreadPoolExecutor(ck.NCPU) as ex:
        for j, res in zip(jobs, ex.map(work, jobs)):
            if res is None:
                continue
            done += 1
            key = "%s-%s%s" % (res["syscall"], res["kind"], ("-" + res["errno"]) if res["errno"] else "")
            if res["verdict"] == "inconclusive":
                eng.stats["inconclusive"] += 1
                continue
            eng.stats["faults"][key] = eng.stats["faults"].get(key, 0) + 1
            eng.distinct.add((j[0]["name"], res["index"], res["kind"], res["errno"]))
            if res["verdict"] == "violation":
                eng.violations.append(dict(case=j[0], fault=dict(kind=res["kind"], errno=res["errno"], widx=j[1], syscall=res["syscall"], index=res["index"]),
                                           message="%s (%s), %s%s at system call #%d (%s) of the operation: %s" % (
                                               j[0]["name"], j[0]["kind"], res["kind"], (" " + res["errno"]) if res["errno"] else "", res["index"], res["syscall"], "; ".join(res["messages"])),
                                           oracle=prop + "." + res["kind"]))
    total = len(jobs)
    exhaustive = done == total
    # replay files
    out_viol = []
    seen = set()
    keep = os.path.join(os.environ.get("VERIF_REPLAYS_DIR") or os.path.join(ck.VERIF, "replays"), prop)
    for v in eng.violations:
        sig = (v["oracle"], v["case"]["kind"], v["fault"].get("syscall"), v["fault"].get("errno"))
        if sig in seen:
            continue
        seen.add(sig)
        os.makedirs(keep, exist_ok=True)
        case = dict(v["case"])
        case["markers"] = [m.decode() for m in case.get("markers", [])]
        if case.get("old_cache") is not None:
            case["old_cache"] = base64.b64encode(case["old_cache"]).decode()
        rp = dict(property=prop, stage_module="crashfs", engine="crashfs", seed=seed, case=case, fault=v["fault"],
                  violation=dict(oracle=v["oracle"], step=v["fault"].get("index", 0), message=v["message"]))
        name = "%s-crashfs-%s-%s.json" % (prop, v["case"]["name"], hashlib.sha1(json.dumps(v["fault"], sort_keys=True).encode()).hexdigest()[:8])
        dst = os.path.join(keep, name)
        json.dump(rp, open(dst, "w"), indent=1)
        out_viol.append(dict(oracle=v["oracle"], message=v["message"], replay=dst))
        if len(out_viol) >= 8:
            break
    if eng.stats["inconclusive"] > max(5, done // 5):
        eng.trouble.append("%d of %d injected runs were inconclusive (fault did not land on the intended call)" % (eng.stats["inconclusive"], done))
    totals = dict(runs=done + len(recs), nontrivial=done, steps=0, ops=len(recs), sim_time_s=0.0, wall_s=time.time() - t0,
                  faults=eng.stats["faults"], probes=dict(eng.stats["probes"], inconclusive=eng.stats["inconclusive"]),
                  per_engine={"crashfs": done + len(recs)}, digests=set(), distinct_extra=len(eng.distinct), samples=samples,
                  real=["db write path (kv.save)", "client/setec FileCache.Write", "tailscale.com/atomicfile", "Go runtime + os package", "Linux kernel file system (tmpfs)"],
                  stub=[], violations=[],
                  extra=dict(crashfs=dict(operations=len(recs), fault_positions_total=total, fault_positions_run=done, exhaustive_per_operation=exhaustive,
                                          inconclusive=eng.stats["inconclusive"])))
    return dict(totals=totals, violations=out_viol, trouble=eng.trouble)


def replay(ck, b, prop, rp, outroot):
    eng = Engine(ck, b, prop, os.path.join(outroot, "replay"), rp.get("seed", 1))
    case = rp["case"]
    case["markers"] = [m.encode() for m in case.get("markers", [])]
    if case.get("old_cache") is not None:
        case["old_cache"] = base64.b64decode(case["old_cache"])
    rec, err = eng.record(case)
    if rec is None:
        print("replay: record failed: %s" % err)
        return 2
    f = rp["fault"]
    if f["kind"] == "trace-invariant":
        bad = eng.invariants(case, rec)
        for m in bad:
            print("  " + m)
        if bad:
            print("VIOLATION property=%s replay=%s" % (prop, "(given)"))
            return 1
        print("replay did not reproduce the violation on this tree")
        return 0
    # locate the same call by its index within the window
    widx = rec["wb"] + f["index"]
    res = eng.injected(case, rec, widx, f["kind"], f.get("errno"))
    print(json.dumps({k: v for k, v in res.items()}, indent=1))
    if res["verdict"] == "violation":
        print("VIOLATION property=%s replay=%s" % (prop, "(given)"))
        return 1
    print("replay did not reproduce the violation on this tree (verdict %s)" % res["verdict"])
    return 0
