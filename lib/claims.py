"""Texts for MANIFEST.json."""

SIM = "deterministic simulation (seeded tape, fault injection), oracle = executable reference model"

SIMV = "deterministic simulation: virtual clock (testing/synctest), baton scheduler over lock and service park points, scripted fault-injecting service and cache, oracle = reference model over the recorded history"

ENGINES = [
    {"name": "dbworld", "path": "sim/dbworld", "serves_properties": ["C01", "C02", "C03", "C05", "C06", "C08", "C09", "C14"],
     "kind_free_text": "in-process simulation of the server side: real db/acl/audit/server/client code, scripted tailnet identity, fault-injecting audit sink, in-process HTTP transport with request corruption, clean restarts; every choice from one seeded tape"},
    {"name": "storeworld", "path": "sim/storeworld", "serves_properties": ["C10", "C11", "C12", "C13", "C15", "C16", "C19"],
     "kind_free_text": "in-process simulation of the client side inside a testing/synctest bubble: real Store/Updater/watcher/caches/FileClient, scripted StoreClient with per-(name,request) fault scripts, recording fault-injecting cache, PollTicker/TimeNow seams, baton scheduler at every mutex acquisition and service request"},
    {"name": "backupworld", "path": "sim/backupworld", "serves_properties": ["C17"],
     "kind_free_text": "real periodicBackup/doBackup + real db + real aws-sdk s3 client inside a synctest bubble; HTTPClient is an in-memory bucket that records, fails and stalls"},
    {"name": "kernel", "path": "sim/kernel", "serves_properties": [],
     "kind_free_text": "tape (single PRNG), baton scheduler over park points inside a testing/synctest bubble (virtual clock), canonical event log, delta-debugging shrinker"},
]

NOTES = ("All checks rebuild from /repo's working tree (VERIF_REPO overrides) with go1.26.8, -tags verif and an overlay of "
         "instrumented copies produced at check time by instrument/ (lock and map-range hooks); nothing in /repo is edited. "
         "Exit 2 = build/harness trouble, never a verdict.")

NOT_APPLICABLE = {
    "C07": "pure function of (pattern, name): no schedule, clock, I/O, fault or interleaving for a simulator to own; deciding it is input enumeration, a different technique (the matcher is exercised in situ by C01's adversarial names/patterns against an independent glob)",
    "C18": "pure input->output relation over byte strings and CLI flags; the only event in it is a clean restart (byte-exact round trips are asserted anyway by the C02/C03/C09/C11/C13 oracles over the same value classes; cmd/setec is outside every simulated world)",
    "C20": "reflection plumbing over generated struct shapes: a pure function of its inputs with no schedule, clock or fault dimension",
}

CLAIMS = {
    "C01": dict(engine="dbworld", design_ref="5/C01", technique=SIM + "; independent DP glob matcher for the ACL",
                text="Seeded search over rule sets x callers x all nine entry points x names x reachable states, at the DB API and through the HTTP handlers; every call judged for result class, absence of payload, unchanged file bytes and unchanged observable state on denial, exact list contents, and byte-identical refusals. Sampling, not proof.",
                note="trusts the map model and the independent glob matcher; identity service is a stub returning the drawn rules"),
    "C02": dict(engine="dbworld", design_ref="5/C02", technique=SIM,
                text="Seeded sequential histories judged call by call against a plain map model, with a complete state read-out (list, info, every version, active value) compared after every call. Sampling of histories, each checked exactly.",
                note="trusts the map model written from the statement; single client"),
    "C03": dict(engine="dbworld", design_ref="5/C03", technique=SIM + "; restart as a generated operation",
                text="The C02 histories with a clean restart (reopen of the same file with the same key) after every call or at random points; state after each reopen must equal the acknowledged model state including the hidden next-version counter (observed through later puts); Open must leave bytes, inode and mtime untouched; committed schema-v1 golden files must open with the recorded contents.",
                note="golden files were produced by the pinned tree; crashes are C04's"),
    "C05": dict(engine="dbworld", design_ref="5/C05", technique=SIM + "; enumerated corruption of saved files (every bit flip, every truncation, splices, foreign keys)",
                text="Histories with high-entropy marker names/values; after every save every file of the state directory is scanned for every marker in raw/hex/base64/JSON-escaped form and for mode bits; the key-encryption key sits behind a counting wrapper that is switched to an outage after Open (reads, writes and persistence must go on; the KEK must never be consulted outside Open). Separately, saved files are corrupted exhaustively per sampled file (each single-bit flip, each truncation length, foreign KEKs, DEK/DB swaps between databases under the same and different KEKs, ciphertext halves spliced, altered schema version): Open must fail or yield identical contents.",
                note="KEK is a real tink AEAD created in process, not a KMS; replacing the whole file by an older snapshot is out of scope as stated; temp files left by kills are scanned in C04's engine"),
    "C06": dict(engine="dbworld", design_ref="5/C06", technique=SIM + "; audit sink fails at a drawn record (write error, short write, sync error)",
                text="Authorised and denied calls at the DB API and through the handlers; for each call the bytes the sink received between invoke and return must contain a complete, synced JSON line with the right principal/action/secret/version/authorized; at the instant a record is written and synced the database file must still be byte-identical to the file at invoke; a failed sink must fail the call with no value and no state change (checked on the running handle and after a restart); an unchanged conditional get must write nothing.",
                note="in-memory sink; concurrency of real audit files is the concurrent stage's job"),
    "C08": dict(engine="dbworld", design_ref="5/C08", technique=SIM + "; request corruption and identity faults as injected message faults",
                text="Real Client -> in-process transport -> real handlers -> real DB. A drawn subset of requests is damaged (method, content type, browser header, truncated / non-JSON / wrongly typed bodies, unknown endpoint) or meets an identity fault (lookup error, anonymous node, malformed grant, empty grants, legacy capability name); each is classified ill-formed / well-formed / unspecified by the generator. Ill-formed: non-2xx, file bytes and state unchanged, zero audit records, no marker bytes. Accepted: exact status map and exact result vs. the model with the rules from the scripted WhoIs answer; audit principal equals that identity.",
                note="no sockets; net/http's own request parsing is bypassed (requests are handed to mux.ServeHTTP)"),
    "C10": dict(engine="storeworld", design_ref="5/C10", technique="deterministic simulation under a virtual clock (testing/synctest) with a scripted, fault-injecting service and cache",
                text="NewStore run as a simulated task against a per-(name,attempt) script of failures, hangs and latencies, every cache kind, optional deadline, stub or file-backed client, and misconfigurations; oracles on the request log and the virtual return time: values come from the cache or were really served, no request before return with a complete cache, no re-fetch of an obtained secret, gaps between rounds <= 10 s, error within 1 s of the context's end, immediate failure with a file-backed client, misconfiguration = immediate error.",
                note="service stub honours contexts; time only passes while no task is runnable, so scheduler stalls cannot masquerade as slowness"),
    "C16": dict(engine="storeworld", design_ref="5/C16", technique="deterministic simulation under a virtual clock with baton-scheduled concurrent callers and a service that answers, fails, is slow or hangs forever",
                text="Concurrent callers through all four entry points with deadlines, scripted cancellations or no deadline; oracles: gate (panic / error, zero requests), at most one in-flight lookup request per name, every successful caller's handle reads served bytes, failed lookups install nothing, no automatic retry (request counts bounded by callers plus aborts by foreign contexts), five-minute safety limit on every request led by a no-deadline caller and prompt return afterwards, no failure by proxy, and the looked-up name is polled and cached afterwards.",
                note="a caller that joined another caller's flight is governed by that flight's context (observed: it can outlive its own deadline; not part of the statement)"),
    "C11": dict(engine="storeworld", design_ref="5/C11", technique=SIMV,
                text="After every refresh call that returns nil (explicit or the poller's), every name known when its epoch began and still known must be at a version that was active at the service at some stamp of the epoch window, in the cache document too; per epoch each name is requested at most once (coalescing); after failures values stay really-served; with a healthy service one final refresh must succeed and bring handles, document and service into agreement. A separate cadence scenario runs the real time.Ticker under the virtual clock.",
                note="names first known or first pinned during an in-flight poll are exempt for that poll, as the statement says"),
    "C12": dict(engine="storeworld", design_ref="5/C12", technique=SIMV + "; race detector on free-running replicas",
                text="Reader tasks read handles while polls, lookups, expiry sweeps and Close are parked at arbitrary lock and service points. A read that issues a request or a cache write, or that waits for a lock whose holder is parked at the service or blocked on a timer, is a violation (decided from the scheduler's lock-ownership table, no watchdog). Bytes must decode to (that name, a served version) and be whole; per reader the versions must follow the install log and never precede an install completed before the read began. Second stage: same workload unscheduled under -race.",
                note="interleavings at lock/seam granularity; torn reads outside any lock are the race stage's"),
    "C13": dict(engine="storeworld", design_ref="5/C13", technique=SIMV,
                text="Every document the store writes must be one JSON object of the documented shape holding each known name with bytes of exactly that (name, version); after every shutdown a probe store is started from the last good document with a dead service and must come up without a request and serve exactly the document, and a FileClient on the same bytes must agree; cache Write/Read faults must be tolerated; corrupt and arbitrary cache contents must never panic or fail a start.",
                note="atomic replacement of the cache file under kills is not yet decided here (crashfs)"),
    "C15": dict(engine="storeworld", design_ref="5/C15", technique=SIMV,
                text="Updaters over watched secrets with tape-chosen interleavings of installs, Gets and registrations: a Get that begins after an install of a different version completed must rebuild (no lost update); a rebuild is allowed only if an install landed since the previous Get began; the bytes handed to the builder must be the newest installed before the Get or newer; builder failure keeps the old value and sets Err; each replaced closer is closed exactly once, the current one never.",
                note="overlapping Gets on one updater are judged by the weak invariants only"),
    "C17": dict(engine="backupworld", design_ref="5/C17", technique="deterministic simulation: virtual clock, baton scheduler at database-lock and upload park points, in-memory S3 endpoint with scripted faults",
                text="The unexported loop is run through the add-only hook with the real aws-sdk client. Oracles over the bucket's record: every body is byte-identical to a complete database file recorded after some step; first upload at start-up; an upload after a successful one only if the file changed since that one began; attempts >= 60 s apart; three minutes after the last write and fault the newest successful object equals the current file; the loop task may pass at most 64 park points per virtual instant and take the database lock at most 400 times per idle hour (busy-loop detection without a watchdog); after cancellation it exits within 1 s of virtual time.",
                note="S3 is an in-memory http client; makeS3Client / ambient credentials are outside the world"),
    "C19": dict(engine="storeworld", design_ref="5/C19", technique=SIMV + "; restart as a generated operation",
                text="Whenever a name disappears from the cache document it must be undeclared, an expiry age must be set, the store clock minus the model's last access must exceed the age (1 s slack), no handle or watcher may have been handed out by this process, and the write must happen inside a poll; every document written after a read must carry lastAccess >= that read's second; restarts re-apply the rule with the persisted stamps.",
                note="the converse (eligible implies dropped) is not claimed, only counted as a reach probe"),
    "C14": dict(engine="dbworld", design_ref="5/C14", technique="deterministic simulation: seeded baton schedules over lock/seam park points, histories decided by porcupine (linearizability) against the map model; race detector on free-running replicas of the workload",
                text="Small concurrent histories from 2-4 clients on shared names, every interleaving decision (which parked goroutine proceeds at each mutex acquisition, audit write, identity lookup, transport hop) drawn from the tape; invoke/return stamped with a global sequence number; porcupine decides each history exactly against the sequential model with the final state appended. A second stage runs the same workloads unscheduled under -race.",
                note="park points are lock acquisitions and seams: code between two park points runs atomically in the baton stage; data races are the race stage's job"),
    "C09": dict(engine="dbworld", design_ref="5/C09", technique=SIM,
                text="Seeded histories of put/activate/delete/restart interleaved with conditional gets carrying every kind of V, judged against the model at the DB API, through handler+Client, and for FileClient on files generated from the model.",
                note="sequential; trusts the map model"),
}
