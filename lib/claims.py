"""Texts for MANIFEST.json."""

SIM = "deterministic simulation (seeded tape, fault injection), oracle = executable reference model"

ENGINES = [
    {"name": "dbworld", "path": "sim/dbworld", "serves_properties": ["C01", "C02", "C03", "C05", "C06", "C08", "C09", "C14"],
     "kind_free_text": "in-process simulation of the server side: real db/acl/audit/server/client code, scripted tailnet identity, fault-injecting audit sink, in-process HTTP transport with request corruption, clean restarts; every choice from one seeded tape"},
    {"name": "storeworld", "path": "sim/storeworld", "serves_properties": ["C10", "C11", "C12", "C13", "C15", "C16", "C19"],
     "kind_free_text": "in-process simulation of the client side inside a testing/synctest bubble: real Store/Updater/watcher/caches/FileClient, scripted StoreClient with per-(name,request) fault scripts, recording fault-injecting cache, PollTicker/TimeNow seams, baton scheduler at every mutex acquisition and service request"},
    {"name": "kernel", "path": "sim/kernel", "serves_properties": [],
     "kind_free_text": "tape (single PRNG), baton scheduler over park points inside a testing/synctest bubble (virtual clock), canonical event log, delta-debugging shrinker"},
]

NOTES = ("All checks rebuild from /repo's working tree (VERIF_REPO overrides) with go1.26.8, -tags verif and an overlay of "
         "instrumented copies produced at check time by instrument/ (lock and map-range hooks); nothing in /repo is edited. "
         "Exit 2 = build/harness trouble, never a verdict.")

NOT_APPLICABLE = {
    "C07": "pure function of (pattern, name): no schedule, clock, I/O, fault or interleaving for a simulator to own; deciding it is input enumeration, a different technique (the matcher is exercised in situ by C01's adversarial names/patterns against an independent glob)",
    "C18": "pure input->output relation over byte strings and CLI flags; the only event in it is a clean restart (byte-exact round trips are asserted anyway by the C02/C03/C09/C11/C13 oracles over the same value classes; cmd/setec is outside every simulated world)",
    "C20": "reflection plumbing over generated struct shapes: a pure function of its inputs with no schedule, clock or fault dimension",
}

CLAIMS = {
    "C01": dict(engine="dbworld", design_ref="5/C01", technique=SIM + "; independent DP glob matcher for the ACL",
                text="Seeded search over rule sets x callers x all nine entry points x names x reachable states, at the DB API and through the HTTP handlers; every call judged for result class, absence of payload, unchanged file bytes and unchanged observable state on denial, exact list contents, and byte-identical refusals. Sampling, not proof.",
                note="trusts the map model and the independent glob matcher; identity service is a stub returning the drawn rules"),
    "C02": dict(engine="dbworld", design_ref="5/C02", technique=SIM,
                text="Seeded sequential histories judged call by call against a plain map model, with a complete state read-out (list, info, every version, active value) compared after every call. Sampling of histories, each checked exactly.",
                note="trusts the map model written from the statement; single client"),
    "C03": dict(engine="dbworld", design_ref="5/C03", technique=SIM + "; restart as a generated operation",
                text="The C02 histories with a clean restart (reopen of the same file with the same key) after every call or at random points; state after each reopen must equal the acknowledged model state including the hidden next-version counter (observed through later puts); Open must leave bytes, inode and mtime untouched; committed schema-v1 golden files must open with the recorded contents.",
                note="golden files were produced by the pinned tree; crashes are C04's"),
    "C05": dict(engine="dbworld", design_ref="5/C05", technique=SIM + "; enumerated corruption of saved files (every bit flip, every truncation, splices, foreign keys)",
                text="Histories with high-entropy marker names/values; after every save every file of the state directory is scanned for every marker in raw/hex/base64/JSON-escaped form and for mode bits; the key-encryption key sits behind a counting wrapper that is switched to an outage after Open (reads, writes and persistence must go on; the KEK must never be consulted outside Open). Separately, saved files are corrupted exhaustively per sampled file (each single-bit flip, each truncation length, foreign KEKs, DEK/DB swaps between databases under the same and different KEKs, ciphertext halves spliced, altered schema version): Open must fail or yield identical contents.",
                note="KEK is a real tink AEAD created in process, not a KMS; replacing the whole file by an older snapshot is out of scope as stated; temp files left by kills are scanned in C04's engine"),
    "C06": dict(engine="dbworld", design_ref="5/C06", technique=SIM + "; audit sink fails at a drawn record (write error, short write, sync error)",
                text="Authorised and denied calls at the DB API and through the handlers; for each call the bytes the sink received between invoke and return must contain a complete, synced JSON line with the right principal/action/secret/version/authorized; at the instant a record is written and synced the database file must still be byte-identical to the file at invoke; a failed sink must fail the call with no value and no state change (checked on the running handle and after a restart); an unchanged conditional get must write nothing.",
                note="in-memory sink; concurrency of real audit files is the concurrent stage's job"),
    "C08": dict(engine="dbworld", design_ref="5/C08", technique=SIM + "; request corruption and identity faults as injected message faults",
                text="Real Client -> in-process transport -> real handlers -> real DB. A drawn subset of requests is damaged (method, content type, browser header, truncated / non-JSON / wrongly typed bodies, unknown endpoint) or meets an identity fault (lookup error, anonymous node, malformed grant, empty grants, legacy capability name); each is classified ill-formed / well-formed / unspecified by the generator. Ill-formed: non-2xx, file bytes and state unchanged, zero audit records, no marker bytes. Accepted: exact status map and exact result vs. the model with the rules from the scripted WhoIs answer; audit principal equals that identity.",
                note="no sockets; net/http's own request parsing is bypassed (requests are handed to mux.ServeHTTP)"),
    "C10": dict(engine="storeworld", design_ref="5/C10", technique="deterministic simulation under a virtual clock (testing/synctest) with a scripted, fault-injecting service and cache",
                text="NewStore run as a simulated task against a per-(name,attempt) script of failures, hangs and latencies, every cache kind, optional deadline, stub or file-backed client, and misconfigurations; oracles on the request log and the virtual return time: values come from the cache or were really served, no request before return with a complete cache, no re-fetch of an obtained secret, gaps between rounds <= 10 s, error within 1 s of the context's end, immediate failure with a file-backed client, misconfiguration = immediate error.",
                note="service stub honours contexts; time only passes while no task is runnable, so scheduler stalls cannot masquerade as slowness"),
    "C16": dict(engine="storeworld", design_ref="5/C16", technique="deterministic simulation under a virtual clock with baton-scheduled concurrent callers and a service that answers, fails, is slow or hangs forever",
                text="Concurrent callers through all four entry points with deadlines, scripted cancellations or no deadline; oracles: gate (panic / error, zero requests), at most one in-flight lookup request per name, every successful caller's handle reads served bytes, failed lookups install nothing, no automatic retry (request counts bounded by callers plus aborts by foreign contexts), five-minute safety limit on every request led by a no-deadline caller and prompt return afterwards, no failure by proxy, and the looked-up name is polled and cached afterwards.",
                note="a caller that joined another caller's flight is governed by that flight's context (observed: it can outlive its own deadline; not part of the statement)"),
    "C14": dict(engine="dbworld", design_ref="5/C14", technique="deterministic simulation: seeded baton schedules over lock/seam park points, histories decided by porcupine (linearizability) against the map model; race detector on free-running replicas of the workload",
                text="Small concurrent histories from 2-4 clients on shared names, every interleaving decision (which parked goroutine proceeds at each mutex acquisition, audit write, identity lookup, transport hop) drawn from the tape; invoke/return stamped with a global sequence number; porcupine decides each history exactly against the sequential model with the final state appended. A second stage runs the same workloads unscheduled under -race.",
                note="park points are lock acquisitions and seams: code between two park points runs atomically in the baton stage; data races are the race stage's job"),
    "C09": dict(engine="dbworld", design_ref="5/C09", technique=SIM,
                text="Seeded histories of put/activate/delete/restart interleaved with conditional gets carrying every kind of V, judged against the model at the DB API, through handler+Client, and for FileClient on files generated from the model.",
                note="sequential; trusts the map model"),
}
