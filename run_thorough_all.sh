#!/bin/bash
# Run every claimed property's thorough command once (several hours). Used in the background via `vp run`.
cd "$(dirname "$0")"
./setup.sh >/dev/null 2>&1
rc=0
for p in $(python3 -c "import json;print(' '.join(c['property_id'] for c in json.load(open('MANIFEST.json'))['checks']))"); do
  s=$(date +%s)
  VERIF_SEED=${VERIF_SEED:-2} ./check $p thorough > thorough-$p.log 2>&1
  r=$?
  echo "$p rc=$r $(( $(date +%s) - s ))s $(tail -n 1 thorough-$p.log | cut -c1-200)"
  [ $r -ne 0 ] && rc=1
done
exit $rc
