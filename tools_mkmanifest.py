#!/usr/bin/env python3
"""Regenerate MANIFEST.json from lib/props.py and lib/claims.py."""
import json, os, subprocess, sys
sys.path.insert(0, os.path.join(os.path.dirname(os.path.abspath(__file__)), "lib"))
import props, claims

ids = [json.loads(l)["id"] for l in open("properties.jsonl")]
hooks = subprocess.run(["git", "-C", "/repo", "log", "--format=%H %s"], capture_output=True, text=True).stdout.splitlines()
hook_commits = [l.split()[0] for l in hooks if ("verifhook:" in l or "VerifPeriodicBackup" in l)]
checks = []
for pid in ids:
    if pid not in props.PROPS:
        continue
    c = claims.CLAIMS[pid]
    checks.append({
        "property_id": pid,
        "quick_cmd": "./check %s quick" % pid,
        "thorough_cmd": "./check %s thorough" % pid,
        "evidence_file": "/verif/evidence/%s.json" % pid,
        "replay_cmd_template": "./check %s quick --replay {path}" % pid,
        "engine": c["engine"],
        "level_claimed": {"category": props.PROPS[pid]["level"], "text": c["text"], "design_ref": c["design_ref"]},
        "level_note": c["note"],
        "technique": c["technique"],
    })
na = []
for pid in ids:
    if pid in props.PROPS:
        continue
    na.append({"property_id": pid, "reason": claims.NOT_APPLICABLE.get(pid, "check not built yet in this session; not claimed until it exists")})
m = {
    "version": 1,
    "setup_cmd": "./setup.sh",
    "hooks": {
        "guard": "verif",
        "enable": "go1.26.8 test -c -tags verif -overlay <instrumented copies of db, audit, server, client/setec> (see check: Build.simtest)",
        "baseline_off_cmd": "cd /repo && GOFLAGS=-mod=mod GOPROXY=off go test -json -vet=off -count=1 -timeout 25m ./...",
        "source_commits": hook_commits,
        "add_only": True,
    },
    "engines": claims.ENGINES,
    "checks": checks,
    "not_applicable": na,
    "notes": claims.NOTES,
}
json.dump(m, open("MANIFEST.json", "w"), indent=1)
print("claimed", [c["property_id"] for c in checks], "n/a", [x["property_id"] for x in na])
