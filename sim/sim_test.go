package verifsim

import (
	"encoding/json"
	"fmt"
	"os"
	"os/signal"
	"runtime"
	"slices"
	"sort"
	"strconv"
	"strings"
	"syscall"
	"testing"
	"testing/synctest"
	"time"

	"github.com/tailscale/setec/verifhook"

	"verifsim/dbworld"
	"verifsim/kernel"
)

func TestMain(m *testing.M) {
	n := 1
	if v := os.Getenv("VERIF_GOMAXPROCS"); v != "" {
		n, _ = strconv.Atoi(v)
	}
	runtime.GOMAXPROCS(n)
	// "disk full" windows are made with RLIMIT_FSIZE; the write must fail
	// with EFBIG rather than kill the process
	signal.Ignore(syscall.SIGXFSZ)
	// the usual umask of a service account, whatever the check was started
	// under: a file created without an explicit owner-only mode shows
	syscall.Umask(0o022)
	os.Exit(m.Run())
}

// RunResult is the outcome of one simulated run.
type RunResult struct {
	Seed     uint64            `json:"seed"`
	Engine   string            `json:"engine"`
	Viol     *kernel.Violation `json:"violation,omitempty"`
	Digest   string            `json:"digest"`
	Steps    int               `json:"steps"`
	SimTime  time.Duration     `json:"sim_time_ns"`
	Faults   map[string]int    `json:"faults,omitempty"`
	Probes   map[string]int    `json:"probes,omitempty"`
	Tape     []uint32          `json:"tape,omitempty"`
	Sched    []string          `json:"schedule,omitempty"`
	Trace    []string          `json:"trace,omitempty"`
	Out      Outcome           `json:"-"`
	Crash    string            `json:"crash,omitempty"`
	LogLines []string          `json:"-"`
}

var dumpLog bool

func runOne(t *testing.T, c Case, tape *kernel.Tape) (res RunResult) {
	res.Seed = tape.Seed
	res.Engine = c.Engine
	defer func() {
		verifhook.OnLock, verifhook.OnUnlock, verifhook.OnRange = nil, nil, nil
		verifhook.OnRLock, verifhook.OnRUnlock = nil, nil
		if r := recover(); r != nil {
			res.Crash = fmt.Sprint(r)
			if os.Getenv("VERIF_DEBUG") != "" {
				buf := make([]byte, 1<<20)
				n := runtime.Stack(buf, true)
				fmt.Fprintf(os.Stderr, "BUBBLE CRASH %v\n%s\n", r, buf[:n])
			}
			if res.Viol == nil {
				res.Viol = &kernel.Violation{Oracle: c.Prop + ".bubble", Msg: "bubble ended abnormally: " + res.Crash}
			}
		}
	}()
	synctest.Test(t, func(t *testing.T) {
		s := kernel.NewSim(tape)
		s.RegisterRoot()
		verifhook.OnLock = func(l verifhook.Locker, site string) { s.Lock(l, site) }
		verifhook.OnUnlock = func(l verifhook.Locker, site string) { s.Unlock(l, site) }
		verifhook.OnRange = s.RangeOrder
		verifhook.OnRLock = func(l verifhook.RLocker, site string) { s.RLock(l, site) }
		verifhook.OnRUnlock = func(l verifhook.RLocker, site string) { s.RUnlock(l, site) }
		defer func() {
			if r := recover(); r != nil {
				buf := make([]byte, 8192)
				n := runtime.Stack(buf, false)
				s.Fail(c.Prop+".panic", fmt.Sprintf("panic on the root: %v\n%s", r, buf[:n]))
			}
			s.Closing()
			s.Drain()
			res.Viol = s.Viol
			var lines []string
			res.Digest, lines = s.Digest()
			if dumpLog {
				res.LogLines = lines
			}
			res.Steps = s.Step
			res.SimTime = s.Now()
			res.Faults = s.Faults
			res.Probes = s.Probes
			res.Sched = s.Sched
			res.Tape = tape.Out
		}()
		res.Out = c.Run(s)
		res.Trace = res.Out.Trace
	})
	return res
}

func envInt(k string, def int) int {
	if v := os.Getenv(k); v != "" {
		n, err := strconv.Atoi(v)
		if err == nil {
			return n
		}
	}
	return def
}

// Replay is the replay file format.
type Replay struct {
	Property    string            `json:"property"`
	Engine      string            `json:"engine"`
	Seed        uint64            `json:"seed"`
	Tape        []uint32          `json:"tape"`
	Violation   *kernel.Violation `json:"violation"`
	Schedule    []string          `json:"schedule"`
	Trace       []string          `json:"trace"`
	Faults      map[string]int    `json:"faults"`
	Minimised   bool              `json:"minimised"`
	Regenerate  bool              `json:"regenerate,omitempty"` // no tape: re-run generation from the seed (race reports)
	RaceReport  string            `json:"race_report,omitempty"`
	ShrinkRuns  int               `json:"shrink_runs"`
	OrigTapeLen int               `json:"orig_tape_len"`
}

// Summary is what a worker reports.
type Summary struct {
	Prop       string           `json:"prop"`
	Worker     int              `json:"worker"`
	Runs       int              `json:"runs"`
	Nontrivial int              `json:"nontrivial"`
	Steps      int              `json:"steps"`
	Ops        int              `json:"ops"`
	SimTimeS   float64          `json:"sim_time_s"`
	WallS      float64          `json:"wall_s"`
	Faults     map[string]int   `json:"faults"`
	Probes     map[string]int   `json:"probes"`
	Digests    []string         `json:"digests"`
	PerEngine  map[string]int   `json:"per_engine"`
	Samples    []map[string]any `json:"samples"`
	Violations []string         `json:"violations"` // replay file paths
	Real       []string         `json:"real"`
	Stub       []string         `json:"stub"`
	FirstSeed  uint64           `json:"first_seed"`
	LastSeed   uint64           `json:"last_seed"`
}

// TestWorker runs a batch of seeds for one property. Configuration comes
// from the environment (set by /verif/check).
func TestWorker(t *testing.T) {
	prop := os.Getenv("VERIF_PROP")
	if prop == "" {
		t.Skip("VERIF_PROP not set")
	}
	cases := CasesFor(prop)
	if eng := os.Getenv("VERIF_ENGINE"); eng != "" {
		var cs []Case
		for _, c := range cases {
			if slices.Contains(strings.Split(eng, ","), c.Engine) {
				cs = append(cs, c)
			}
		}
		cases = cs
	}
	if len(cases) == 0 {
		t.Fatalf("no cases for %s", prop)
	}
	outPath := os.Getenv("VERIF_OUT")
	replayDir := os.Getenv("VERIF_REPLAY_DIR")
	if one := os.Getenv("VERIF_ONE"); one != "" {
		// debugging aid: run one (engine, seed) and dump the canonical log
		eng, sd, _ := strings.Cut(one, ":")
		seed, _ := strconv.ParseUint(sd, 10, 64)
		for _, c := range cases {
			if c.Engine == eng {
				dumpLog = true
				res := runOne(t, c, kernel.NewTape(seed))
				fmt.Println(strings.Join(res.LogLines, "\n"))
				fmt.Println("DIGEST", res.Digest, res.Viol)
			}
		}
		return
	}
	if rp := os.Getenv("VERIF_REPLAY"); rp != "" {
		doReplay(t, rp, outPath)
		return
	}
	base, _ := strconv.ParseUint(os.Getenv("VERIF_SEED"), 10, 64)
	worker := envInt("VERIF_WORKER", 0)
	workers := envInt("VERIF_WORKERS", 1)
	maxRuns := envInt("VERIF_MAX_RUNS", 1<<30)
	budget := time.Duration(envInt("VERIF_BUDGET_S", 10)) * time.Second
	maxViol := envInt("VERIF_MAX_VIOL", 4)
	idxOffset := uint64(envInt("VERIF_IDX_OFFSET", 0)) // successive processes of one worker slot continue the index sequence
	digestLog := os.Getenv("VERIF_DIGEST_LOG")
	var dl *os.File
	if digestLog != "" {
		dl, _ = os.Create(digestLog)
		defer dl.Close()
	}

	printStart := os.Getenv("VERIF_PRINT_START") != ""
	curFile := os.Getenv("VERIF_CUR_FILE")
	if os.Getenv("VERIF_DUMP_DIR") != "" {
		dumpLog = true
	}
	var weights []int
	for _, c := range cases {
		weights = append(weights, c.Weight)
	}
	sum := Summary{Prop: prop, Worker: worker, Faults: map[string]int{}, Probes: map[string]int{}, PerEngine: map[string]int{}}
	digests := map[string]bool{}
	ntDigests := map[string]bool{}
	seenViol := map[string]bool{}
	realSet, stubSet := map[string]bool{}, map[string]bool{}
	start := time.Now()
	// Engines share the budget by wall-clock time in proportion to their
	// weights; each engine has its own run index, so (engine, index) names a
	// run regardless of how fast the machine is.
	spent := make([]time.Duration, len(cases))
	count := make([]int, len(cases))
	_ = weights
	for k := 0; k < maxRuns && time.Since(start) < budget; k++ {
		ci := 0
		for i := range cases {
			if float64(spent[i])/float64(cases[i].Weight) < float64(spent[ci])/float64(cases[ci].Weight) {
				ci = i
			}
		}
		c := cases[ci]
		idx := uint64(worker+count[ci]*workers) + idxOffset
		count[ci]++
		seed := kernel.Hash64(base, prop+"/"+c.Engine, idx)
		runStart := time.Now()
		if printStart {
			fmt.Printf("START %s %d\n", c.Engine, seed)
		}
		if curFile != "" {
			// which run a process-killing panic (one raised on a goroutine of
			// the code under test) belongs to
			os.WriteFile(curFile, []byte(fmt.Sprintf("%s %d", c.Engine, seed)), 0o644)
		}
		for _, x := range c.Real {
			realSet[x] = true
		}
		for _, x := range c.Stub {
			stubSet[x] = true
		}
		res := runOne(t, c, kernel.NewTape(seed))
		if dd := os.Getenv("VERIF_DUMP_DIR"); dd != "" {
			os.MkdirAll(dd, 0o755)
			os.WriteFile(fmt.Sprintf("%s/%s-%d.log", dd, c.Engine, seed), []byte(strings.Join(res.LogLines, "\n")+"\n"), 0o644)
		}
		spent[ci] += time.Since(runStart) + time.Microsecond
		if k == 0 {
			sum.FirstSeed = seed
		}
		sum.LastSeed = seed
		sum.Runs++
		sum.PerEngine[c.Engine]++
		sum.Steps += res.Steps
		sum.Ops += res.Out.Ops
		sum.SimTimeS += res.SimTime.Seconds()
		for f, n := range res.Faults {
			sum.Faults[f] += n
		}
		for f, n := range res.Probes {
			sum.Probes[f] += n
		}
		digests[res.Digest] = true
		if res.Out.Nontrivial {
			sum.Nontrivial++
			ntDigests[res.Digest] = true
		}
		if dl != nil {
			fmt.Fprintf(dl, "%d %s %s %d\n", seed, c.Engine, res.Digest, res.Steps)
		}
		if len(sum.Samples) < 3 && res.Out.Nontrivial && res.Viol == nil {
			tr := res.Trace
			if len(tr) > 40 {
				tr = tr[:40]
			}
			sum.Samples = append(sum.Samples, map[string]any{"seed": seed, "engine": c.Engine, "history": tr, "faults": res.Faults, "steps": res.Steps})
		}
		if res.Viol != nil {
			sig := res.Viol.Oracle
			if seenViol[sig] {
				continue
			}
			seenViol[sig] = true
			path := writeViolation(t, c, res, replayDir)
			sum.Violations = append(sum.Violations, path)
			if len(sum.Violations) >= maxViol {
				break
			}
		}
	}
	sum.WallS = time.Since(start).Seconds()
	for d := range ntDigests {
		sum.Digests = append(sum.Digests, d)
	}
	sort.Strings(sum.Digests)
	for x := range realSet {
		sum.Real = append(sum.Real, x)
	}
	for x := range stubSet {
		sum.Stub = append(sum.Stub, x)
	}
	sort.Strings(sum.Real)
	sort.Strings(sum.Stub)
	b, _ := json.Marshal(sum)
	if outPath != "" {
		os.WriteFile(outPath, b, 0o644)
	} else {
		fmt.Println(string(b))
	}
}

func sameViolation(a, b *kernel.Violation) bool {
	return a != nil && b != nil && a.Oracle == b.Oracle
}

func writeViolation(t *testing.T, c Case, res RunResult, dir string) string {
	orig := res
	// minimise: same oracle must fire
	test := func(tp []uint32) bool {
		r := runOne(t, c, kernel.ReplayTape(res.Seed, tp))
		return sameViolation(r.Viol, orig.Viol)
	}
	min := res
	minimised := false
	shrinkRuns := 0
	if os.Getenv("VERIF_NO_SHRINK") == "" && res.Crash == "" {
		// first confirm that replaying the recorded tape reproduces
		if test(res.Tape) {
			tp, n := kernel.Shrink(res.Tape, test, envInt("VERIF_SHRINK_RUNS", 400), 90*time.Second)
			shrinkRuns = n
			r := runOne(t, c, kernel.ReplayTape(res.Seed, tp))
			if sameViolation(r.Viol, orig.Viol) {
				min = r
				min.Tape = tp
				minimised = true
			}
		}
	}
	rp := Replay{Property: c.Prop, Engine: c.Engine, Seed: res.Seed, Tape: min.Tape, Violation: min.Viol,
		Schedule: min.Sched, Trace: min.Trace, Faults: min.Faults, Minimised: minimised, ShrinkRuns: shrinkRuns, OrigTapeLen: len(orig.Tape)}
	b, _ := json.MarshalIndent(rp, "", " ")
	if dir == "" {
		dir = os.TempDir()
	}
	os.MkdirAll(dir, 0o755)
	path := fmt.Sprintf("%s/%s-%s-%d.json", dir, c.Prop, c.Engine, res.Seed)
	os.WriteFile(path, b, 0o644)
	return path
}

func doReplay(t *testing.T, path, outPath string) {
	b, err := os.ReadFile(path)
	if err != nil {
		t.Fatal(err)
	}
	var rp Replay
	if err := json.Unmarshal(b, &rp); err != nil {
		t.Fatal(err)
	}
	var c *Case
	for i := range Cases {
		if Cases[i].Prop == rp.Property && Cases[i].Engine == rp.Engine {
			c = &Cases[i]
		}
	}
	if c == nil {
		t.Fatalf("no case %s/%s", rp.Property, rp.Engine)
	}
	tape := kernel.ReplayTape(rp.Seed, rp.Tape)
	if rp.Regenerate {
		tape = kernel.NewTape(rp.Seed)
	}
	res := runOne(t, *c, tape)
	out := map[string]any{"reproduced": sameViolation(res.Viol, rp.Violation) && res.Viol.Step == rp.Violation.Step && res.Viol.Msg == rp.Violation.Msg,
		"same_oracle": sameViolation(res.Viol, rp.Violation), "violation": res.Viol, "expected": rp.Violation, "trace": res.Trace, "schedule": res.Sched}
	ob, _ := json.MarshalIndent(out, "", " ")
	if outPath != "" {
		os.WriteFile(outPath, ob, 0o644)
	}
	fmt.Println(string(ob))
}

// TestGenGolden writes golden schema-v1 fixtures (one-off; see fixtures/README).
func TestGenGolden(t *testing.T) {
	dir := os.Getenv("VERIF_GEN_GOLDEN")
	if dir == "" {
		t.Skip()
	}
	for i := 0; i < 3; i++ {
		if err := dbworld.GenGolden(dir, i); err != nil {
			t.Fatal(err)
		}
	}
}
