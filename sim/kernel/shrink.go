package kernel

import "time"

// Shrink minimises a failing tape by delta debugging: delete blocks, zero
// blocks, lower values. test must report whether the candidate still fails
// with the same oracle. Bounded by maxRuns executions and a wall-clock budget.
func Shrink(tape []uint32, test func([]uint32) bool, maxRuns int, budget time.Duration) ([]uint32, int) {
	start := time.Now()
	runs := 0
	try := func(c []uint32) bool {
		if runs >= maxRuns || time.Since(start) > budget {
			return false
		}
		runs++
		return test(c)
	}
	cur := append([]uint32(nil), tape...)
	// trailing zeros are implicit
	trim := func(c []uint32) []uint32 {
		for len(c) > 0 && c[len(c)-1] == 0 {
			c = c[:len(c)-1]
		}
		return c
	}
	cur = trim(cur)
	improved := true
	for improved && runs < maxRuns && time.Since(start) < budget {
		improved = false
		// truncate
		for n := len(cur) / 2; n >= 1; n /= 2 {
			for len(cur) > n {
				c := trim(append([]uint32(nil), cur[:len(cur)-n]...))
				if try(c) {
					cur = c
					improved = true
				} else {
					break
				}
			}
		}
		// delete blocks
		for n := len(cur) / 2; n >= 1; n /= 2 {
			for i := 0; i+n <= len(cur); {
				c := append(append([]uint32(nil), cur[:i]...), cur[i+n:]...)
				c = trim(c)
				if try(c) {
					cur = c
					improved = true
				} else {
					i += n
				}
			}
		}
		// zero blocks
		for n := len(cur) / 2; n >= 1; n /= 2 {
			for i := 0; i+n <= len(cur); i += n {
				allZero := true
				for _, v := range cur[i : i+n] {
					if v != 0 {
						allZero = false
					}
				}
				if allZero {
					continue
				}
				c := append([]uint32(nil), cur...)
				for j := i; j < i+n; j++ {
					c[j] = 0
				}
				c = trim(c)
				if try(c) {
					cur = c
					improved = true
				}
			}
		}
		// lower values
		for i := 0; i < len(cur); i++ {
			for cur[i] > 0 {
				c := append([]uint32(nil), cur...)
				if c[i] > 1 {
					c[i] /= 2
				} else {
					c[i] = 0
				}
				c = trim(c)
				if try(c) {
					cur = c
					improved = true
					if i >= len(cur) {
						break
					}
				} else {
					if cur[i] > 1 {
						c2 := append([]uint32(nil), cur...)
						c2[i]--
						c2 = trim(c2)
						if try(c2) {
							cur = c2
							improved = true
							if i >= len(cur) {
								break
							}
							continue
						}
					}
					break
				}
			}
		}
	}
	return cur, runs
}
