// Package kernel is the deterministic simulation kernel: a tape-recorded
// choice source, a baton scheduler over park points (tickets), a canonical
// event log, and the shrinker.
package kernel

import (
	"math/rand/v2"
)

// Tape is the only source of choices in a run. In generation mode draws come
// from a PRNG seeded by the run seed and are recorded; in replay mode they are
// read back (an exhausted tape yields 0, which every call site arranges to be
// its simplest alternative).
type Tape struct {
	Seed   uint64
	rng    *rand.Rand
	replay bool
	in     []uint32
	pos    int
	Out    []uint32
}

// NewTape returns a generating tape for seed.
func NewTape(seed uint64) *Tape {
	return &Tape{Seed: seed, rng: rand.New(rand.NewPCG(seed, 0x9e3779b97f4a7c15))}
}

// ReplayTape returns a tape that replays in.
func ReplayTape(seed uint64, in []uint32) *Tape {
	return &Tape{Seed: seed, replay: true, in: in}
}

// Choice returns a value in [0,n). n<=1 consumes nothing.
func (t *Tape) Choice(n int) int {
	if n <= 1 {
		return 0
	}
	var v uint32
	if t.replay {
		if t.pos < len(t.in) {
			v = t.in[t.pos] % uint32(n)
		}
		t.pos++
	} else {
		v = uint32(t.rng.IntN(n))
	}
	t.Out = append(t.Out, v)
	return int(v)
}

// Bool is true with probability num/den; false is the simple alternative.
func (t *Tape) Bool(num, den int) bool {
	if num <= 0 {
		return false
	}
	return t.Choice(den) >= den-num
}

// Weighted picks an index with probability proportional to w[i]. Index 0
// should be the simplest alternative. Zero weights are never picked.
func (t *Tape) Weighted(w []int) int {
	total := 0
	for _, x := range w {
		total += x
	}
	if total <= 0 {
		return 0
	}
	v := t.Choice(total)
	for i, x := range w {
		if v < x {
			return i
		}
		v -= x
	}
	return len(w) - 1
}

// Range returns a value in [lo,hi].
func (t *Tape) Range(lo, hi int) int {
	if hi <= lo {
		return lo
	}
	return lo + t.Choice(hi-lo+1)
}

// Bytes returns n pseudo-random bytes (each a draw; keep n small).
func (t *Tape) Bytes(n int) []byte {
	b := make([]byte, n)
	for i := range b {
		b[i] = byte(t.Choice(256))
	}
	return b
}

// Hash64 is a seed-derived hash used for choices that must not disturb the
// tape (map iteration permutations, marker nonces).
func Hash64(seed uint64, s string, k uint64) uint64 {
	h := seed ^ 0xcbf29ce484222325
	for i := 0; i < len(s); i++ {
		h ^= uint64(s[i])
		h *= 0x100000001b3
	}
	h ^= k + 0x9e3779b97f4a7c15 + (h << 6) + (h >> 2)
	h *= 0xff51afd7ed558ccd
	h ^= h >> 33
	h *= 0xc4ceb9fe1a85ec53
	h ^= h >> 33
	return h
}
