package kernel

import (
	"bytes"
	"crypto/sha256"
	"encoding/hex"
	"fmt"
	"runtime"
	"sort"
	"strconv"
	"sync"
	"testing/synctest"
	"time"
)

// Task is a simulated actor: a goroutine started by the root, or a goroutine
// spawned by the code under test and first seen at a park point.
type Task struct {
	Name     string
	seq      int
	children int
	Cur      string // free-form: what the task is doing (set by worlds)
	InRead   bool   // set by worlds while the task is inside a handle read
}

// Ticket is a parked goroutine waiting for the root to release it.
type Ticket struct {
	Task *Task
	Seq  int
	Kind string // "lock", "op", "svc", "audit", "http", "whois", "s3", ...
	Site string
	Lock any // for Kind=="lock": the mutex
	Info any
	ch   chan struct{}
	gone bool
}

func (t *Ticket) String() string {
	return fmt.Sprintf("%s#%d:%s@%s", t.Task.Name, t.Seq, t.Kind, t.Site)
}

// Event is one canonical log line.
type Event struct {
	Step int
	Task string
	Seq  int
	Text string
}

// Violation is the first oracle failure of a run.
type Violation struct {
	Oracle string `json:"oracle"`
	Step   int    `json:"step"`
	Msg    string `json:"message"`
}

// Sim is one run's scheduler state.
type Sim struct {
	T *Tape

	mu        sync.Mutex
	tickets   []*Ticket
	tasks     map[int64]*Task
	owners    map[any]*Task
	readers   map[any]int // read-lock holders per RWMutex
	events    []Event
	rootSeq   int
	Step      int
	free      bool // pass-through (teardown, or sequential worlds)
	root      *Task
	wake      chan struct{}
	lateLocks int
	closing   bool // teardown has begun: goroutines run freely, nothing is logged or judged
	start     time.Time

	Viol   *Violation
	Faults map[string]int // fired fault counts
	Probes map[string]int // reach probes
	Sched  []string       // human-readable schedule (bounded)

	rangeCount map[string]uint64
	// LockWait, if set, is called by the root before each step with every
	// disabled lock ticket and the lock's owner (used by C12).
	Contended int
}

// NewSim creates a scheduler. Must be called inside the bubble.
func NewSim(t *Tape) *Sim {
	return &Sim{
		T: t, tasks: map[int64]*Task{}, owners: map[any]*Task{}, readers: map[any]int{},
		Faults: map[string]int{}, Probes: map[string]int{}, wake: make(chan struct{}, 1),
		rangeCount: map[string]uint64{}, start: time.Now(),
	}
}

// SetFree switches lock hooks and parks to pass-through.
func (s *Sim) SetFree(f bool) { s.mu.Lock(); s.free = f; s.mu.Unlock() }

// Now is virtual time since the start of the run.
func (s *Sim) Now() time.Duration { return time.Since(s.start) }

func goid() int64 {
	var buf [64]byte
	n := runtime.Stack(buf[:], false)
	// "goroutine 123 [running]:"
	b := buf[10:n]
	i := bytes.IndexByte(b, ' ')
	id, _ := strconv.ParseInt(string(b[:i]), 10, 64)
	return id
}

func parentGoid() int64 {
	buf := make([]byte, 1<<16)
	n := runtime.Stack(buf, false)
	b := buf[:n]
	i := bytes.LastIndex(b, []byte(" in goroutine "))
	if i < 0 {
		return -1
	}
	b = b[i+len(" in goroutine "):]
	j := bytes.IndexByte(b, '\n')
	if j >= 0 {
		b = b[:j]
	}
	id, err := strconv.ParseInt(string(bytes.TrimSpace(b)), 10, 64)
	if err != nil {
		return -1
	}
	return id
}

// CurTask returns the task of the calling goroutine, naming a goroutine
// spawned by the code under test after its parent.
func (s *Sim) CurTask() *Task {
	id := goid()
	s.mu.Lock()
	t := s.tasks[id]
	s.mu.Unlock()
	if t != nil {
		return t
	}
	pid := parentGoid()
	s.mu.Lock()
	defer s.mu.Unlock()
	name := "?"
	if p := s.tasks[pid]; p != nil {
		name = p.Name + "/" + strconv.Itoa(p.children)
		p.children++
	} else {
		name = "orphan" + strconv.Itoa(len(s.tasks))
	}
	t = &Task{Name: name}
	s.tasks[id] = t
	return t
}

// IsRoot reports whether the caller is the root goroutine (registered as "root").
func (s *Sim) register(name string) *Task {
	t := &Task{Name: name}
	s.mu.Lock()
	s.tasks[goid()] = t
	s.mu.Unlock()
	return t
}

// RegisterRoot names the calling goroutine "root".
func (s *Sim) RegisterRoot() *Task { s.root = s.register("root"); return s.root }

// Go starts a task and runs it until its first park (or exit).
func (s *Sim) Go(name string, fn func(t *Task)) {
	go func() {
		t := s.register(name)
		defer func() {
			if r := recover(); r != nil {
				buf := make([]byte, 4096)
				n := runtime.Stack(buf, false)
				s.Fail("panic", fmt.Sprintf("task %s panicked: %v\n%s", name, r, trimStack(buf[:n])))
			}
		}()
		fn(t)
	}()
	synctest.Wait()
}

func trimStack(b []byte) string {
	lines := bytes.Split(b, []byte("\n"))
	var out [][]byte
	for _, l := range lines {
		if bytes.Contains(l, []byte("setec")) || bytes.Contains(l, []byte("verifsim")) {
			out = append(out, l)
		}
		if len(out) >= 12 {
			break
		}
	}
	return string(bytes.Join(out, []byte("\n")))
}

// Park files a ticket and blocks until the root releases it. In free mode it
// returns at once. done, if non-nil, is a channel whose closing withdraws the
// ticket (Park then returns false).
func (s *Sim) Park(kind, site string, lock any, info any, done <-chan struct{}) bool {
	t := s.CurTask()
	s.mu.Lock()
	if s.free || t == s.root {
		// the root is the scheduler: it runs only while everything else is
		// parked and never parks itself (oracle reads take locks directly)
		s.mu.Unlock()
		return true
	}
	t.seq++
	tk := &Ticket{Task: t, Seq: t.seq, Kind: kind, Site: site, Lock: lock, Info: info, ch: make(chan struct{})}
	s.tickets = append(s.tickets, tk)
	s.mu.Unlock()
	select {
	case s.wake <- struct{}{}:
	default:
	}
	if done == nil {
		<-tk.ch
		return true
	}
	select {
	case <-tk.ch:
		return true
	case <-done:
		s.mu.Lock()
		if tk.gone { // released concurrently
			s.mu.Unlock()
			return true
		}
		s.removeLocked(tk)
		s.mu.Unlock()
		return false
	}
}

func (s *Sim) removeLocked(tk *Ticket) {
	tk.gone = true
	for i, x := range s.tickets {
		if x == tk {
			s.tickets = append(s.tickets[:i], s.tickets[i+1:]...)
			return
		}
	}
}

// Gate parks the calling task right after a call into the code under test
// has returned, before any harness bookkeeping runs. One release can wake
// several goroutines at once (a shared flight completing, a context ending);
// the gate makes them run their harness code one at a time, in canonical
// ticket order, so that logs, stamps and counters do not depend on how the Go
// scheduler interleaved them.
func (s *Sim) Gate(site string) { s.Park("ret", site, nil, nil, nil) }

// Lock is the verifhook.OnLock implementation.
func (s *Sim) Lock(l interface {
	Lock()
	Unlock()
	TryLock() bool
}, site string) {
	for {
		s.mu.Lock()
		free := s.free
		s.lateSpin()
		s.mu.Unlock()
		if free {
			l.Lock()
			return
		}
		if s.CurTask() == s.root {
			// The root (oracle reads) takes locks directly. If a parked task
			// holds this one (it parked inside a critical section, e.g. at a
			// cache write), let that task run on until it lets go.
			for i := 0; !l.TryLock(); i++ {
				s.mu.Lock()
				owner := s.owners[l]
				s.mu.Unlock()
				var tk *Ticket
				if owner != nil {
					tk = s.TicketOf(owner)
				}
				if tk == nil || i > 10000 {
					panic("sim: the root needs a lock whose holder cannot be run")
				}
				s.Release(tk)
			}
			return
		}
		s.Park("lock", site, l, nil, nil)
		if l.TryLock() {
			t := s.CurTask()
			s.mu.Lock()
			s.owners[l] = t
			s.mu.Unlock()
			return
		}
	}
}

// Unlock is the verifhook.OnUnlock implementation.
func (s *Sim) Unlock(l interface {
	Lock()
	Unlock()
	TryLock() bool
}, site string) {
	s.mu.Lock()
	delete(s.owners, l)
	s.mu.Unlock()
	l.Unlock()
}

// RLock is the verifhook.OnRLock implementation (sync.RWMutex read side).
func (s *Sim) RLock(l interface {
	RLock()
	RUnlock()
	TryRLock() bool
}, site string) {
	for {
		s.mu.Lock()
		free := s.free
		s.lateSpin()
		s.mu.Unlock()
		if free {
			l.RLock()
			return
		}
		if s.CurTask() == s.root {
			for i := 0; !l.TryRLock(); i++ {
				s.mu.Lock()
				owner := s.owners[l]
				s.mu.Unlock()
				var tk *Ticket
				if owner != nil {
					tk = s.TicketOf(owner)
				}
				if tk == nil || i > 10000 {
					panic("sim: the root needs a read lock whose writer cannot be run")
				}
				s.Release(tk)
			}
			return
		}
		s.Park("rlock", site, l, nil, nil)
		if l.TryRLock() {
			s.mu.Lock()
			s.readers[l]++
			s.mu.Unlock()
			return
		}
	}
}

// RUnlock is the verifhook.OnRUnlock implementation.
func (s *Sim) RUnlock(l interface {
	RLock()
	RUnlock()
	TryRLock() bool
}, site string) {
	s.mu.Lock()
	if s.readers[l] > 0 {
		s.readers[l]--
	}
	s.mu.Unlock()
	l.RUnlock()
}

// RangeOrder is the verifhook.OnRange implementation: a permutation derived
// from (run seed, site, per-site counter); it does not touch the tape.
func (s *Sim) RangeOrder(n int, site string) []int {
	if n < 2 {
		return nil
	}
	s.mu.Lock()
	k := s.rangeCount[site]
	s.rangeCount[site] = k + 1
	s.mu.Unlock()
	p := make([]int, n)
	for i := range p {
		p[i] = i
	}
	h := Hash64(s.T.Seed, site, k)
	for i := n - 1; i > 0; i-- {
		h = h*6364136223846793005 + 1442695040888963407
		j := int((h >> 33) % uint64(i+1))
		p[i], p[j] = p[j], p[i]
	}
	return p
}

// Owner returns the task holding l, if known.
func (s *Sim) Owner(l any) *Task {
	s.mu.Lock()
	defer s.mu.Unlock()
	return s.owners[l]
}

// Tickets returns all tickets in canonical order, and which are enabled.
func (s *Sim) Tickets() (all []*Ticket, enabled []*Ticket) {
	s.mu.Lock()
	defer s.mu.Unlock()
	all = append(all, s.tickets...)
	sort.Slice(all, func(i, j int) bool {
		if all[i].Task.Name != all[j].Task.Name {
			return all[i].Task.Name < all[j].Task.Name
		}
		return all[i].Seq < all[j].Seq
	})
	for _, tk := range all {
		if tk.Kind == "lock" && (s.owners[tk.Lock] != nil || s.readers[tk.Lock] > 0) {
			continue
		}
		if tk.Kind == "rlock" && s.owners[tk.Lock] != nil {
			continue
		}
		enabled = append(enabled, tk)
	}
	return all, enabled
}

// TicketOf returns the ticket task t is parked at, if any.
func (s *Sim) TicketOf(t *Task) *Ticket {
	s.mu.Lock()
	defer s.mu.Unlock()
	for _, tk := range s.tickets {
		if tk.Task == t {
			return tk
		}
	}
	return nil
}

// Release lets the ticket's goroutine run until everything is parked again.
func (s *Sim) Release(tk *Ticket) {
	s.mu.Lock()
	if tk.gone {
		s.mu.Unlock()
		return
	}
	s.removeLocked(tk)
	s.Step++
	if len(s.Sched) < 400 {
		s.Sched = append(s.Sched, fmt.Sprintf("%d t=%v run %s", s.Step, time.Since(s.start), tk))
	}
	s.mu.Unlock()
	close(tk.ch)
	synctest.Wait()
}

// Advance moves virtual time by up to d: it returns early, at that virtual
// instant, as soon as some goroutine files a ticket, so that no task is held
// back by the scheduler while time passes (timing oracles stay exact).
// Timers firing on the way run until they park or block.
func (s *Sim) Advance(d time.Duration) {
	s.mu.Lock()
	s.Step++
	if len(s.Sched) < 400 {
		s.Sched = append(s.Sched, fmt.Sprintf("%d t=%v advance %v", s.Step, time.Since(s.start), d))
	}
	s.mu.Unlock()
	select {
	case <-s.wake:
	default:
	}
	if d > 0 {
		tm := time.NewTimer(d)
		select {
		case <-tm.C:
		case <-s.wake:
			tm.Stop()
		}
	}
	synctest.Wait()
}

// Stall lets d of virtual time pass while parked tasks stay parked (a slow
// or stalled node). Not for scenarios with timing oracles.
func (s *Sim) Stall(d time.Duration) {
	s.mu.Lock()
	s.Step++
	if len(s.Sched) < 400 {
		s.Sched = append(s.Sched, fmt.Sprintf("%d t=%v stall %v", s.Step, time.Since(s.start), d))
	}
	s.mu.Unlock()
	time.Sleep(d)
	synctest.Wait()
}

// Note records a root-level schedule line and a log event.
func (s *Sim) Note(format string, a ...any) {
	msg := fmt.Sprintf(format, a...)
	s.mu.Lock()
	if s.closing {
		s.mu.Unlock()
		return
	}
	if len(s.Sched) < 400 {
		s.Sched = append(s.Sched, fmt.Sprintf("%d t=%v %s", s.Step, time.Since(s.start), msg))
	}
	s.rootSeq++
	s.events = append(s.events, Event{s.Step, "", s.rootSeq, msg})
	s.mu.Unlock()
}

// Closing marks the beginning of teardown. From here on parked goroutines
// are released all at once and run unscheduled, so their events are neither
// logged nor judged (only FailLate, used by teardown checks, still records).
// lateSpin (called with s.mu held) counts lock acquisitions during teardown.
// A task that never stops - it spins on a lock although every context is
// cancelled and every service is gone - would keep the bubble from ending:
// after a generous number of acquisitions it is parked for good (the run has
// been judged by then; the abandoned goroutine ends the bubble abnormally,
// which runOne tolerates when a verdict exists).
func (s *Sim) lateSpin() {
	if !s.closing {
		return
	}
	s.lateLocks++
	if s.lateLocks > 300000 {
		s.mu.Unlock()
		select {}
	}
}

func (s *Sim) Closing() { s.mu.Lock(); s.closing = true; s.mu.Unlock() }

// Log appends a canonical event on behalf of the calling task.
func (s *Sim) Log(format string, a ...any) {
	t := s.CurTask()
	msg := fmt.Sprintf(format, a...)
	s.mu.Lock()
	if s.closing {
		s.mu.Unlock()
		return
	}
	t.seq++
	s.events = append(s.events, Event{s.Step, t.Name, t.seq, msg})
	s.mu.Unlock()
}

// FailLate records a violation found by a teardown check.
func (s *Sim) FailLate(oracle, msg string) {
	s.mu.Lock()
	if s.Viol == nil {
		s.Viol = &Violation{Oracle: oracle, Step: s.Step, Msg: msg}
	}
	s.mu.Unlock()
}

// Fail records the first violation.
func (s *Sim) Fail(oracle, msg string) {
	s.mu.Lock()
	if s.Viol == nil && !s.closing {
		s.Viol = &Violation{Oracle: oracle, Step: s.Step, Msg: msg}
	}
	s.mu.Unlock()
}

// Failed reports whether a violation has been recorded.
func (s *Sim) Failed() bool {
	s.mu.Lock()
	defer s.mu.Unlock()
	return s.Viol != nil
}

// Fault counts a fault that actually fired.
func (s *Sim) Fault(kind string) {
	s.mu.Lock()
	if !s.closing {
		s.Faults[kind]++
	}
	s.mu.Unlock()
}

// Probe counts a reach probe.
func (s *Sim) Probe(name string) {
	s.mu.Lock()
	if !s.closing {
		s.Probes[name]++
	}
	s.mu.Unlock()
}

// Drain switches to pass-through and releases every ticket until none is
// left. Worlds cancel their contexts and fail their stubs first.
func (s *Sim) Drain() {
	s.SetFree(true)
	for i := 0; i < 10000; i++ {
		synctest.Wait()
		s.mu.Lock()
		tks := s.tickets
		s.tickets = nil
		for _, tk := range tks {
			tk.gone = true
		}
		s.mu.Unlock()
		if len(tks) == 0 {
			return
		}
		for _, tk := range tks {
			close(tk.ch)
		}
	}
}

// Digest returns the hash of the canonical event log (events of one step are
// ordered by task and per-task sequence, not by arrival).
func (s *Sim) Digest() (string, []string) {
	s.mu.Lock()
	ev := append([]Event(nil), s.events...)
	s.mu.Unlock()
	sort.SliceStable(ev, func(i, j int) bool {
		if ev[i].Step != ev[j].Step {
			return ev[i].Step < ev[j].Step
		}
		if ev[i].Task != ev[j].Task {
			return ev[i].Task < ev[j].Task
		}
		return ev[i].Seq < ev[j].Seq
	})
	h := sha256.New()
	lines := make([]string, 0, len(ev))
	for _, e := range ev {
		l := fmt.Sprintf("%d|%s|%s", e.Step, e.Task, e.Text)
		lines = append(lines, l)
		h.Write([]byte(l))
		h.Write([]byte{'\n'})
	}
	return hex.EncodeToString(h.Sum(nil)[:12]), lines
}
