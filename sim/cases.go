// Package verifsim wires properties to engines (cases).
package verifsim

import (
	"verifsim/backupworld"
	"verifsim/dbworld"
	"verifsim/kernel"
	"verifsim/storeworld"
)

// Outcome is what a case reports besides the violation kept in the Sim.
type Outcome struct {
	Trace      []string // human-readable history
	Nontrivial bool     // reached at least one fault, interleaving or non-empty state
	Ops        int
}

// Case is one engine configuration serving a property.
type Case struct {
	Prop   string
	Engine string
	Weight int // share of runs
	Run    func(s *kernel.Sim) Outcome
	// Real / stub components, for the evidence.
	Real, Stub []string
}

func orc(ks ...string) map[string]bool {
	m := map[string]bool{}
	for _, k := range ks {
		m[k] = true
	}
	return m
}

func seqCase(prop, engine string, weight int, prof dbworld.Profile) Case {
	prof.Prop = prop
	return Case{Prop: prop, Engine: engine, Weight: weight,
		Real: []string{"db", "acl", "audit", "types/api", "tink AEAD (real AES-GCM/XChaCha KEK)", "tmpfs file system", "server handlers + client/setec.Client (HTTP configurations)"},
		Stub: []string{"tailnet WhoIs", "network (in-process transport)", "key service (in-process key)"},
		Run: func(s *kernel.Sim) Outcome {
			p := prof
			e := dbworld.RunSeq(s, &p)
			if e == nil {
				return Outcome{}
			}
			return Outcome{Trace: e.Trace, Nontrivial: e.Ops > 0, Ops: e.Ops}
		}}
}

func tamperCase() Case {
	prof := dbworld.Profile{Prop: "C05", Oracles: orc("tamper")}
	return Case{Prop: "C05", Engine: "dbworld-tamper", Weight: 2,
		Real: []string{"db (Open / load path)", "tink AEAD (real keys)", "tmpfs file system"},
		Stub: []string{"key service (in-process key)"},
		Run: func(s *kernel.Sim) Outcome {
			p := prof
			e := dbworld.RunTamper(s, &p)
			if e == nil {
				return Outcome{}
			}
			return Outcome{Trace: e.Trace, Nontrivial: true, Ops: e.Ops}
		}}
}

func concCase(prop, engine string, weight int, free bool, oracles map[string]bool) Case {
	prof := dbworld.Profile{Prop: prop, Oracles: oracles, CondHeavy: prop == "C09", DiskFaults: prop == "C04"}
	return Case{Prop: prop, Engine: engine, Weight: weight,
		Real: []string{"db", "acl", "audit", "server handlers", "client/setec.Client", "tink AEAD (real key)", "tmpfs file system"},
		Stub: []string{"tailnet WhoIs", "network (in-process transport)", "goroutine scheduler (baton at lock/audit/WhoIs/transport park points)"},
		Run: func(s *kernel.Sim) Outcome {
			p := prof
			e := dbworld.RunConc(s, &p, free)
			if e == nil {
				return Outcome{}
			}
			return Outcome{Trace: e.Trace, Nontrivial: s.Step > 0 || free, Ops: e.Ops}
		}}
}

func storeCase(prop, engine string, weight int, run func(*kernel.Sim) *storeworld.World) Case {
	return Case{Prop: prop, Engine: engine, Weight: weight,
		Real: []string{"client/setec Store, Updater, watcher, MemCache, FileCache, FileClient, Fields.Apply", "x/sync/singleflight", "package time under testing/synctest (virtual clock)"},
		Stub: []string{"secrets service (scripted StoreClient)", "goroutine scheduler (baton at lock and service park points)", "poll ticker (PollTicker seam) except in the cadence scenario"},
		Run: func(s *kernel.Sim) Outcome {
			w := run(s)
			if w == nil {
				return Outcome{}
			}
			return Outcome{Trace: w.Trace, Nontrivial: w.Ops > 0, Ops: w.Ops}
		}}
}

func liveCase(prop, engine string, weight int, o storeworld.LiveOpts) Case {
	o.Prop = prop
	return storeCase(prop, engine, weight, func(s *kernel.Sim) *storeworld.World { return storeworld.RunLive(s, o) })
}

// Cases lists every (property, engine) pair.
var Cases = []Case{
	seqCase("C02", "dbworld-seq", 1, dbworld.Profile{DiskFaults: true, HugeValues: true, Soak: true, RestartMode: 3, MaxOps: 40, MaxNames: 3,
		Oracles: orc("result", "list", "state", "open", "restart")}),
	seqCase("C01", "dbworld-acl", 1, dbworld.Profile{Restricted: 3, HTTPMode: 1, RuleChanges: true, AuditFaults: true, Dashboard: true, MaxOps: 60, MaxNames: 4,
		Oracles: orc("denied", "denied-identical", "result", "list", "state", "open")}),
	seqCase("C03", "dbworld-restart", 1, dbworld.Profile{RestartMode: 1, Golden: true, LaxModes: true, KEKRotate: true, DiskFaults: true, Symlinks: true, MaxOps: 30, MaxNames: 3,
		Oracles: orc("result", "list", "state", "restart", "open-modifies", "golden", "open")}),
	seqCase("C09", "dbworld-cond", 1, dbworld.Profile{HTTPMode: 1, Restricted: 1, RestartMode: 1, CondHeavy: true, FileClient: true, DiskFaults: true, AuditFaults: true, HugeValues: true, MaxOps: 40, MaxNames: 2,
		Oracles: orc("result", "state", "denied", "open", "fileclient")}),
	seqCase("C06", "dbworld-audit", 3, dbworld.Profile{Restricted: 2, HTTPMode: 1, AuditFaults: true, MaxOps: 30, MaxNames: 3,
		Oracles: orc("audit", "audit-quiet", "audit-order", "audit-failclosed", "open")}),
	seqCase("C08", "dbworld-http", 1, dbworld.Profile{Restricted: 2, HTTPMode: 2, Corruptions: true, RuleChanges: true, AuditFaults: true, Dashboard: true, HugeValues: true, MaxOps: 40, MaxNames: 3,
		Oracles: orc("http-gate", "http-status", "http-leak", "result", "list", "denied", "state", "audit", "open")}),
	seqCase("C05", "dbworld-scan", 3, dbworld.Profile{Scan: true, KEKOutage: true, RestartMode: 1, LaxModes: true, KEKRotate: true, Soak: true, MaxOps: 25, MaxNames: 3,
		Oracles: orc("plaintext", "mode", "kek", "result", "state", "restart", "open", "audit-noleak")}),
	tamperCase(),
	concCase("C14", "dbworld-conc", 1, false, orc("linearizable", "deadlock")),
	concCase("C14", "dbworld-conc-free", 1, true, orc("linearizable", "deadlock")),
	concCase("C06", "dbworld-conc-free", 1, true, orc("audit-file")),
	concCase("C06", "dbworld-conc", 1, false, orc("audit-sync", "deadlock")),
	concCase("C09", "dbworld-conc", 1, false, orc("linearizable", "deadlock")),
	concCase("C09", "dbworld-conc-free", 1, true, orc("linearizable", "deadlock")),
	concCase("C03", "dbworld-conc-restart", 1, false, orc("linearizable", "deadlock", "disk-equals-served")),
	concCase("C04", "dbworld-conc-disk", 1, false, orc("linearizable", "deadlock", "disk-equals-served")),
	{Prop: "C17", Engine: "backupworld", Weight: 1,
		Real: []string{"server/backup.go (periodicBackup, doBackup)", "db (real file on tmpfs)", "aws-sdk-go-v2 s3 client (signing, serialisation)", "package time under testing/synctest"},
		Stub: []string{"S3 endpoint (in-memory bucket as the SDK's HTTPClient)", "goroutine scheduler (baton at database-lock and upload park points)"},
		Run: func(s *kernel.Sim) Outcome {
			w := backupworld.Run(s)
			return Outcome{Trace: w.Trace, Nontrivial: len(w.Bucket.Uploads) > 0, Ops: w.Ops + len(w.Bucket.Uploads)}
		}},
	{Prop: "C05", Engine: "backupworld-kek", Weight: 1,
		Real: []string{"server/backup.go (periodicBackup, doBackup)", "db (real file on tmpfs)", "aws-sdk-go-v2 s3 client"},
		Stub: []string{"S3 endpoint (in-memory bucket)", "key service (in-process key with a call counter and an outage switch)"},
		Run: func(s *kernel.Sim) Outcome {
			w := backupworld.RunFor(s, "C05", map[string]bool{"kek": true, "converge": true})
			return Outcome{Trace: w.Trace, Nontrivial: len(w.Bucket.Uploads) > 0, Ops: w.Ops + len(w.Bucket.Uploads)}
		}},
	storeCase("C10", "storeworld-ctor", 1, storeworld.RunC10),
	storeCase("C16", "storeworld-lookup", 2, storeworld.RunC16),
	liveCase("C16", "storeworld-live", 1, storeworld.LiveOpts{Lookup: true, Expiry: true, SvcFaults: true, Readers: true, Restarts: true,
		Oracles: orc("read-value", "fresh")}),
	liveCase("C11", "storeworld-live", 6, storeworld.LiveOpts{Lookup: true, Expiry: true, SvcFaults: true, CacheFaults: true, Readers: true, Deletes: true,
		Oracles: orc("fresh", "coalesce", "converge", "read-value")}),
	storeCase("C11", "storeworld-cadence", 1, storeworld.RunC11Cadence),
	storeCase("C11", "storeworld-many", 1, func(s *kernel.Sim) *storeworld.World { return storeworld.RunManyTwin(s, "C11") }),
	storeCase("C13", "storeworld-corrupt", 1, storeworld.RunC13Corrupt),
	storeCase("C13", "storeworld-many", 1, func(s *kernel.Sim) *storeworld.World { return storeworld.RunManyTwin(s, "C13") }),
	liveCase("C12", "storeworld-live", 3, storeworld.LiveOpts{Lookup: true, Expiry: true, SvcFaults: true, Readers: true, Close: true,
		Oracles: orc("read-value", "read-order", "read-blocks", "read-after-poll")}),
	storeCase("C12", "storeworld-corrupt", 1, func(s *kernel.Sim) *storeworld.World { return storeworld.RunCorrupt(s, "C12") }),
	storeCase("C12", "storeworld-many", 1, func(s *kernel.Sim) *storeworld.World { return storeworld.RunManyTwin(s, "C12") }),
	storeCase("C12", "storeworld-race", 1, func(s *kernel.Sim) *storeworld.World { return storeworld.RunStoreRace(s, "C12") }),
	liveCase("C19", "storeworld-live", 1, storeworld.LiveOpts{Lookup: true, Expiry: true, Restarts: true, Readers: true, Skew: true, Deletes: true, Updaters: true,
		Oracles: orc("drop", "lastaccess")}),
	liveCase("C15", "storeworld-live", 1, storeworld.LiveOpts{Lookup: true, Updaters: true, SvcFaults: true, CacheFaults: true, Expiry: true,
		Oracles: orc("upd-value", "upd-rebuild", "upd-lost", "upd-error", "upd-close")}),
	liveCase("C13", "storeworld-live", 4, storeworld.LiveOpts{Lookup: true, Restarts: true, CacheFaults: true, SvcFaults: true, Readers: true, Close: true, Expiry: true,
		Oracles: orc("doc-shape", "doc-complete", "restart-probe", "converge")}),
}

// CasesFor returns the cases of a property.
func CasesFor(prop string) []Case {
	var out []Case
	for _, c := range Cases {
		if c.Prop == prop {
			out = append(out, c)
		}
	}
	return out
}
