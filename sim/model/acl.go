package model

// Rule is one ACL rule: a set of actions and a set of glob patterns.
type Rule struct {
	Actions  []string
	Patterns []string
}

// Glob reports whether pat matches name: '*' is any run of characters
// (including '/', newline, anything); everything else is literal; anchored at
// both ends. Independent dynamic-programming matcher over bytes (valid UTF-8
// in, so byte-wise and rune-wise agree for '*'-only wildcards).
func Glob(pat, name string) bool {
	p, n := len(pat), len(name)
	// dp[j]: pat[:i] matches name[:j]
	dp := make([]bool, n+1)
	dp[0] = true
	for i := 1; i <= p; i++ {
		c := pat[i-1]
		if c == '*' {
			// dp'[j] = dp[j] || dp'[j-1]
			for j := 1; j <= n; j++ {
				dp[j] = dp[j] || dp[j-1]
			}
			continue
		}
		for j := n; j >= 1; j-- {
			dp[j] = dp[j-1] && name[j-1] == c
		}
		dp[0] = false
	}
	return dp[n]
}

// Allows reports whether rules grant action on name: one single rule must
// list the action and have a matching pattern.
func Allows(rules []Rule, action, name string) bool {
	for _, r := range rules {
		a := false
		for _, x := range r.Actions {
			if x == action {
				a = true
			}
		}
		if !a {
			continue
		}
		for _, p := range r.Patterns {
			if Glob(p, name) {
				return true
			}
		}
	}
	return false
}
