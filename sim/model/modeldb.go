// Package model holds the reference models (oracles). They are written from
// the property statements and docs/api.md, not transcribed from the code.
package model

import (
	"bytes"
	"fmt"
	"sort"
	"strings"
)

// Class is the class of a result.
type Class int

const (
	OK Class = iota
	NotFound
	AccessDenied
	NotChanged
	OtherError
)

func (c Class) String() string {
	return [...]string{"OK", "NotFound", "AccessDenied", "NotChanged", "OtherError"}[c]
}

// ClassSet is a set of admissible classes.
type ClassSet uint8

func Set(cs ...Class) ClassSet {
	var s ClassSet
	for _, c := range cs {
		s |= 1 << c
	}
	return s
}
func (s ClassSet) Has(c Class) bool { return s&(1<<c) != 0 }
func (s ClassSet) String() string {
	var out []string
	for c := OK; c <= OtherError; c++ {
		if s.Has(c) {
			out = append(out, c.String())
		}
	}
	return "{" + strings.Join(out, ",") + "}"
}

// OpKind enumerates the API operations.
type OpKind int

const (
	OpList OpKind = iota
	OpInfo
	OpGet
	OpGetVersion
	OpGetIfChanged
	OpPut
	OpActivate
	OpDeleteVersion
	OpDelete
	NumOps
)

var opNames = [...]string{"list", "info", "get", "get-version", "get-if-changed", "put", "activate", "delete-version", "delete"}

func (k OpKind) String() string { return opNames[k] }

// Action returns the ACL action an operation requires.
func (k OpKind) Action() string {
	switch k {
	case OpList, OpInfo:
		return "info"
	case OpGet, OpGetVersion, OpGetIfChanged:
		return "get"
	case OpPut:
		return "put"
	case OpActivate:
		return "activate"
	default:
		return "delete"
	}
}

// Mutating reports whether the operation can change state.
func (k OpKind) Mutating() bool { return k >= OpPut }

// Op is one API call.
type Op struct {
	Kind    OpKind
	Name    string
	Version uint32
	Value   []byte
}

func (o Op) String() string {
	switch o.Kind {
	case OpList:
		return "list"
	case OpInfo, OpGet, OpDelete:
		return fmt.Sprintf("%s(%q)", o.Kind, o.Name)
	case OpPut:
		return fmt.Sprintf("put(%q,%s)", o.Name, ShortBytes(o.Value))
	default:
		return fmt.Sprintf("%s(%q,%d)", o.Kind, o.Name, o.Version)
	}
}

func ShortBytes(b []byte) string {
	if len(b) <= 24 {
		return fmt.Sprintf("%q", b)
	}
	return fmt.Sprintf("%q…(%d bytes)", b[:16], len(b))
}

// Info is secret metadata.
type Info struct {
	Name     string
	Versions []uint32
	Active   uint32
}

func (i Info) String() string { return fmt.Sprintf("%q%v@%d", i.Name, i.Versions, i.Active) }

// Res is the result of an Op (from the model or observed).
type Res struct {
	Class   Class
	Value   []byte // get*
	Version uint32 // get*, put
	Info    *Info  // info
	List    []Info // list
	ErrText string // observed only
}

func (r Res) String() string {
	switch {
	case r.Class != OK:
		if r.ErrText != "" {
			return fmt.Sprintf("%s(%s)", r.Class, r.ErrText)
		}
		return r.Class.String()
	case r.List != nil:
		return fmt.Sprintf("OK list=%v", r.List)
	case r.Info != nil:
		return fmt.Sprintf("OK info=%v", *r.Info)
	case r.Value != nil || r.Version != 0:
		return fmt.Sprintf("OK v%d %s", r.Version, ShortBytes(r.Value))
	}
	return "OK"
}

type secret struct {
	versions map[uint32][]byte
	active   uint32
	latest   uint32
}

// DB is the sequential map model of the secrets database.
type DB struct {
	m map[string]*secret
}

func NewDB() *DB { return &DB{m: map[string]*secret{}} }

// Clone deep-copies the model.
func (d *DB) Clone() *DB {
	c := NewDB()
	for n, s := range d.m {
		ns := &secret{versions: map[uint32][]byte{}, active: s.active, latest: s.latest}
		for v, b := range s.versions {
			ns.versions[v] = b // bytes are never mutated
		}
		c.m[n] = ns
	}
	return c
}

const reservedPrefix = "_internal/"

// Expect is what the model admits for an op: a set of classes and, when OK is
// admitted, the exact OK result.
type Expect struct {
	Classes ClassSet
	OK      Res
}

// Peek computes the expectation for op without changing the model.
// Apply commits the state change of a successful mutating op.
func (d *DB) Peek(op Op) Expect {
	s := d.m[op.Name]
	refuse := func(cs ...Class) Expect { return Expect{Classes: Set(cs...)} }
	ok := func(r Res) Expect { r.Class = OK; return Expect{Classes: Set(OK), OK: r} }
	switch op.Kind {
	case OpList:
		return ok(Res{List: d.List()})
	case OpInfo:
		if s == nil {
			return refuse(NotFound)
		}
		i := d.info(op.Name)
		return ok(Res{Info: &i})
	case OpGet:
		if s == nil {
			return refuse(NotFound)
		}
		return ok(Res{Value: s.versions[s.active], Version: s.active})
	case OpGetVersion:
		// version 0 on this entry point is not pinned down by the statement
		// beyond "failed calls change nothing"; the HTTP layer routes 0 to get.
		if s == nil {
			return refuse(NotFound)
		}
		b, has := s.versions[op.Version]
		if !has {
			return refuse(NotFound)
		}
		return ok(Res{Value: b, Version: op.Version})
	case OpGetIfChanged:
		if s == nil {
			return refuse(NotFound)
		}
		if op.Version != 0 && s.active == op.Version {
			return refuse(NotChanged)
		}
		return ok(Res{Value: s.versions[s.active], Version: s.active})
	case OpPut:
		if op.Name == "" {
			return refuse(OtherError, AccessDenied)
		}
		if strings.HasPrefix(op.Name, reservedPrefix) {
			return refuse(OtherError)
		}
		if s == nil {
			return ok(Res{Version: 1})
		}
		if b, has := s.versions[s.latest]; has && bytes.Equal(b, op.Value) {
			return ok(Res{Version: s.latest})
		}
		return ok(Res{Version: s.latest + 1})
	case OpActivate:
		if op.Name == "" {
			return refuse(OtherError, AccessDenied)
		}
		if strings.HasPrefix(op.Name, reservedPrefix) {
			return refuse(OtherError)
		}
		if op.Version == 0 {
			if s == nil {
				return refuse(OtherError, NotFound)
			}
			return refuse(OtherError)
		}
		if s == nil {
			return refuse(NotFound)
		}
		if _, has := s.versions[op.Version]; !has {
			return refuse(NotFound)
		}
		return ok(Res{})
	case OpDeleteVersion:
		if strings.HasPrefix(op.Name, reservedPrefix) {
			return refuse(OtherError)
		}
		if op.Version == 0 {
			if s == nil {
				return refuse(OtherError, NotFound)
			}
			return refuse(OtherError)
		}
		if s == nil {
			return refuse(NotFound)
		}
		if _, has := s.versions[op.Version]; !has {
			return refuse(NotFound)
		}
		if s.active == op.Version {
			return refuse(OtherError)
		}
		return ok(Res{})
	case OpDelete:
		if strings.HasPrefix(op.Name, reservedPrefix) {
			return refuse(OtherError)
		}
		return ok(Res{})
	}
	panic("bad op")
}

// Apply commits a successful op. It must only be called when the
// implementation reported success and Peek admitted OK.
func (d *DB) Apply(op Op) {
	s := d.m[op.Name]
	switch op.Kind {
	case OpPut:
		val := append([]byte{}, op.Value...)
		if s == nil {
			d.m[op.Name] = &secret{versions: map[uint32][]byte{1: val}, active: 1, latest: 1}
			return
		}
		if b, has := s.versions[s.latest]; has && bytes.Equal(b, op.Value) {
			return
		}
		s.latest++
		s.versions[s.latest] = val
	case OpActivate:
		s.active = op.Version
	case OpDeleteVersion:
		delete(s.versions, op.Version)
	case OpDelete:
		delete(d.m, op.Name)
	}
}

func (d *DB) info(name string) Info {
	s := d.m[name]
	i := Info{Name: name, Active: s.active}
	for v := range s.versions {
		i.Versions = append(i.Versions, v)
	}
	sort.Slice(i.Versions, func(a, b int) bool { return i.Versions[a] < i.Versions[b] })
	return i
}

// List returns all secrets' metadata sorted by name.
func (d *DB) List() []Info {
	out := []Info{}
	for n := range d.m {
		out = append(out, d.info(n))
	}
	sort.Slice(out, func(a, b int) bool { return out[a].Name < out[b].Name })
	return out
}

// Names returns the sorted names present.
func (d *DB) Names() []string {
	var out []string
	for n := range d.m {
		out = append(out, n)
	}
	sort.Strings(out)
	return out
}

// Has reports whether name exists.
func (d *DB) Has(name string) bool { return d.m[name] != nil }

// Active returns the active version of name (0 if absent).
func (d *DB) Active(name string) uint32 {
	if s := d.m[name]; s != nil {
		return s.active
	}
	return 0
}

// Latest returns the high-water mark of name (0 if absent).
func (d *DB) Latest(name string) uint32 {
	if s := d.m[name]; s != nil {
		return s.latest
	}
	return 0
}

// VersionBytes returns the bytes bound to (name, version).
func (d *DB) VersionBytes(name string, v uint32) ([]byte, bool) {
	s := d.m[name]
	if s == nil {
		return nil, false
	}
	b, ok := s.versions[v]
	return b, ok
}

// Versions returns the sorted versions of name.
func (d *DB) Versions(name string) []uint32 {
	if d.m[name] == nil {
		return nil
	}
	return d.info(name).Versions
}

// Dump is a canonical text form of the whole state (values included).
func (d *DB) Dump() string {
	var sb strings.Builder
	for _, i := range d.List() {
		fmt.Fprintf(&sb, "%q act=%d latest=%d", i.Name, i.Active, d.m[i.Name].latest)
		for _, v := range i.Versions {
			fmt.Fprintf(&sb, " %d=%x", v, d.m[i.Name].versions[v])
		}
		sb.WriteByte('\n')
	}
	return sb.String()
}

// DumpVisible is Dump without the hidden counter (what an observer can see).
func (d *DB) DumpVisible() string {
	var sb strings.Builder
	for _, i := range d.List() {
		fmt.Fprintf(&sb, "%q act=%d", i.Name, i.Active)
		for _, v := range i.Versions {
			fmt.Fprintf(&sb, " %d=%x", v, d.m[i.Name].versions[v])
		}
		sb.WriteByte('\n')
	}
	return sb.String()
}

// EqualRes compares an observed OK result with the model's.
func EqualRes(a, b Res) bool {
	if a.Class != b.Class {
		return false
	}
	if a.Class != OK {
		return true
	}
	if a.Version != b.Version || !bytes.Equal(a.Value, b.Value) {
		return false
	}
	if (a.Info == nil) != (b.Info == nil) {
		return false
	}
	if a.Info != nil && !equalInfo(*a.Info, *b.Info) {
		return false
	}
	if (a.List == nil) != (b.List == nil) || len(a.List) != len(b.List) {
		return false
	}
	for i := range a.List {
		if !equalInfo(a.List[i], b.List[i]) {
			return false
		}
	}
	return true
}

func equalInfo(a, b Info) bool {
	if a.Name != b.Name || a.Active != b.Active || len(a.Versions) != len(b.Versions) {
		return false
	}
	for i := range a.Versions {
		if a.Versions[i] != b.Versions[i] {
			return false
		}
	}
	return true
}

// Load installs a secret wholesale (golden fixtures).
func (d *DB) Load(name string, versions map[uint32][]byte, active, latest uint32) {
	s := &secret{versions: map[uint32][]byte{}, active: active, latest: latest}
	for v, b := range versions {
		s.versions[v] = append([]byte{}, b...)
	}
	d.m[name] = s
}
