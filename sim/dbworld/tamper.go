package dbworld

import (
	"bytes"
	"encoding/json"
	"fmt"
	"os"
	"path/filepath"
	"strings"

	"github.com/tailscale/setec/audit"
	"github.com/tailscale/setec/db"

	"verifsim/kernel"
	"verifsim/model"
)

// RunTamper builds two databases from short histories and then enumerates
// corruptions of the saved file: every single-bit flip, every truncation
// length, wrong key, field swaps between databases, altered schema version.
// Open must report an error or yield exactly the original contents.
func RunTamper(s *kernel.Sim, prof *Profile) *Env {
	s.SetFree(true)
	e, err := NewEnv(s, prof)
	if err != nil {
		s.Fail("harness", err.Error())
		return nil
	}
	defer e.Close()
	t := s.T
	e.DrawMarkerNames(t.Range(1, 2))
	e.MakeCallers(0, nil)
	if err := e.Open(); err != nil {
		s.Fail(prof.Prop+".harness", err.Error())
		return e
	}
	n := t.Range(1, 5)
	var images [][]byte // the file after each successful save
	for i := 0; i < n; i++ {
		op := e.GenOp([]int{0, 0, 0, 0, 0, 6, 2, 1, 1}, false)
		if op.Kind == model.OpPut && len(op.Value) > 200 {
			op.Value = op.Value[:200] // keep files small: flips are enumerated
		}
		res := e.Exec(e.Super, op)
		if res.Class == model.OK && e.Model.Peek(op).Classes.Has(model.OK) {
			e.Model.Apply(op)
		}
		e.tracef("%s -> %s", op, res)
		e.Ops++
		if img := e.ReadFile(); len(images) == 0 || !bytes.Equal(images[len(images)-1], img) {
			images = append(images, img)
		}
	}
	// the audit log file is secret-bearing too (names): owner-only at creation
	if aw, err := audit.NewFile(filepath.Join(e.Dir, "audit.log")); err == nil {
		aw.WriteEntries(&audit.Entry{Action: "get", Secret: e.Names[0]})
		if t.Bool(1, 25) {
			// a log that has grown large (tens of MiB): whatever the writer does
			// about size, every file it creates is secret-bearing
			big := strings.Repeat("n", 1<<20)
			for i := 0; i < 40; i++ {
				aw.WriteEntries(&audit.Entry{Action: "get", Secret: fmt.Sprintf("%s-%d", big, i)})
			}
			s.Fault("audit-log-grown-large")
		}
		aw.Close()
		ents, _ := os.ReadDir(e.Dir)
		for _, ent := range ents {
			if !strings.HasPrefix(ent.Name(), "audit") {
				continue
			}
			if fi, err := os.Stat(filepath.Join(e.Dir, ent.Name())); err == nil && fi.Mode().IsRegular() && fi.Mode().Perm()&0o077 != 0 {
				e.fail("tamper", "audit log file %s created with mode %v (must be owner-only)", ent.Name(), fi.Mode().Perm())
			}
			os.Remove(filepath.Join(e.Dir, ent.Name()))
		}
	}
	want := e.Model.DumpVisible()
	orig := e.ReadFile()
	if got, err := e.Observe(); err != nil || got != want {
		s.Fail(prof.Prop+".harness", fmt.Sprintf("tamper setup: state mismatch %v", err))
		return e
	}

	// A save that was killed between writing its temporary file and the
	// rename leaves a complete, valid image beside the database - of a state
	// nobody was told was committed, or by now of a long superseded one.
	// Nothing removes such files. Half of the runs have one lying around.
	var leftover []byte
	if t.Bool(1, 2) {
		var cands [][]byte
		for _, img := range images {
			if !bytes.Equal(img, orig) {
				cands = append(cands, img)
			}
		}
		// ... and the image of a write that was never acknowledged
		p3 := filepath.Join(e.Dir, "unacked.db")
		os.WriteFile(p3, orig, 0o600)
		if d3, err := db.Open(p3, e.KEK, audit.New(discard{})); err == nil {
			if _, err := d3.Put(e.Super.dbc, e.Names[0], []byte("never acknowledged")); err == nil {
				if b, err := os.ReadFile(p3); err == nil && !bytes.Equal(b, orig) {
					cands = append(cands, b)
				}
			}
		}
		os.Remove(p3)
		if len(cands) > 0 {
			leftover = cands[t.Choice(len(cands))]
			os.WriteFile(filepath.Join(e.Dir, fmt.Sprintf("tampered.db.tmp%d", 100000+t.Choice(899999))), leftover, 0o600)
			s.Fault("leftover-temporary")
		}
	}
	mustFail := false
	tryOpen := func(what string, data []byte, kek *KEK) {
		p := filepath.Join(e.Dir, "tampered.db")
		if leftover != nil {
			what += " (with the temporary file of an interrupted save beside it)"
		}
		os.WriteFile(p, data, 0o600)
		defer func() {
			if r := recover(); r != nil {
				e.fail("tamper", "%s: Open panicked: %v", what, r)
			}
		}()
		d, err := db.Open(p, kek, audit.New(discard{}))
		if err != nil {
			return
		}
		if mustFail {
			e.fail("tamper", "%s: Open succeeded; the database must open only with the key-encryption key it was created with", what)
			return
		}
		old := e.DB
		e.DB = d
		got, oerr := e.Observe()
		e.DB = old
		if oerr != nil || got != want {
			e.fail("tamper", "%s: Open succeeded with different contents (%v):\n got: %s\nwant: %s", what, oerr, got, want)
		} else {
			s.Probe("tamper-opened-identical")
		}
	}

	full := t.Bool(1, 3) || os.Getenv("VERIF_TIER") == "thorough"
	// bit flips
	nflip := 0
	for i := 0; i < len(orig)*8 && !s.Failed(); i++ {
		if !full && kernel.Hash64(t.Seed, "flip", uint64(i))%8 != 0 {
			continue
		}
		b := append([]byte{}, orig...)
		b[i/8] ^= 1 << (i % 8)
		tryOpen(fmt.Sprintf("bit flip at byte %d bit %d", i/8, i%8), b, e.KEK)
		nflip++
	}
	s.Faults["bit-flip"] += nflip
	// truncations
	for i := 0; i < len(orig) && !s.Failed(); i++ {
		tryOpen(fmt.Sprintf("truncation to %d bytes", i), orig[:i], e.KEK)
		s.Faults["truncation"]++
	}
	// wrong key
	for k := 0; k < 4 && !s.Failed(); k++ {
		other := NewKEK(k)
		if other.inner == e.KEK.inner {
			continue
		}
		mustFail = true
		tryOpen(fmt.Sprintf("foreign key-encryption key %d", k), orig, other)
		// ... and a key service that refuses
		down := &KEK{inner: e.KEK.inner, Outage: true}
		tryOpen("key-encryption key unavailable (every call fails)", orig, down)
		mustFail = false
		s.Faults["wrong-kek"]++
	}
	// a second database: same KEK, and one under a different KEK
	var w1 struct {
		Version uint32
		DEK, DB []byte
	}
	json.Unmarshal(orig, &w1)
	for variant := 0; variant < 2 && !s.Failed(); variant++ {
		kek2 := e.KEK
		if variant == 1 {
			kek2 = NewKEK(int(kernel.Hash64(t.Seed, "kek", 0)%4) + 1)
		}
		p2 := filepath.Join(e.Dir, fmt.Sprintf("other%d.db", variant))
		d2, err := db.Open(p2, kek2, audit.New(discard{}))
		if err != nil {
			continue
		}
		d2.Put(e.Super.dbc, "other-secret", []byte("other-value"))
		d2.Put(e.Super.dbc, e.Names[0], []byte("planted"))
		b2, _ := os.ReadFile(p2)
		var w2 struct {
			Version uint32
			DEK, DB []byte
		}
		json.Unmarshal(b2, &w2)
		mk := func(dek, dbb []byte) []byte {
			b, _ := json.Marshal(map[string]any{"Version": 1, "DEK": dek, "DB": dbb})
			return b
		}
		tryOpen(fmt.Sprintf("splice: DEK of another database (variant %d) with this DB", variant), mk(w2.DEK, w1.DB), e.KEK)
		tryOpen(fmt.Sprintf("splice: this DEK with the DB of another database (variant %d)", variant), mk(w1.DEK, w2.DB), e.KEK)
		if variant == 1 {
			tryOpen("splice: foreign DEK and DB opened with this key", b2, e.KEK)
		}
		// splice halves of the ciphertext
		if len(w1.DB) > 40 && len(w2.DB) > 40 {
			tryOpen("splice: first half of this DB with the second half of another", mk(w1.DEK, append(append([]byte{}, w1.DB[:len(w1.DB)/2]...), w2.DB[len(w2.DB)/2:]...)), e.KEK)
		}
		s.Faults["splice"] += 3
		os.Remove(p2)
	}
	for _, v := range []int{0, 2, 255} {
		b, _ := json.Marshal(map[string]any{"Version": v, "DEK": w1.DEK, "DB": w1.DB})
		tryOpen(fmt.Sprintf("schema version altered to %d", v), b, e.KEK)
		s.Faults["version-altered"]++
	}
	if !bytes.Equal(e.ReadFile(), orig) {
		s.Fail(prof.Prop+".harness", "tamper: original file changed")
	}
	return e
}
