package dbworld

import (
	"bufio"
	"bytes"
	"encoding/json"
	"fmt"
	"os"
	"path/filepath"
	"runtime"
	"sort"
	"strings"
	"sync"
	"sync/atomic"
	"syscall"
	"time"

	"github.com/anishathalye/porcupine"
	"github.com/tailscale/setec/audit"
	"github.com/tailscale/setec/db"

	"verifsim/kernel"
	"verifsim/model"
)

// ConcOp is one operation of a concurrent history.
type ConcOp struct {
	Client  int
	Caller  *Caller
	Op      model.Op
	Allowed bool
	Call    int64
	Ret     int64
	Res     model.Res
	Done    bool
	Faulted bool // the disk was full during one of this call's steps
}

type concIn struct {
	op      model.Op
	allowed bool
	rules   []model.Rule
	super   bool
	readout bool
	faulted bool
}

type concOut struct {
	res  model.Res
	dump string
}

// porcupineModel judges a history against the map model. State is an
// immutable *model.DB (cloned on mutation).
func porcupineModel(base *model.DB) porcupine.Model {
	return porcupine.Model{
		Init: func() interface{} { return base.Clone() },
		Step: func(state, input, output interface{}) (bool, interface{}) {
			st := state.(*model.DB)
			in := input.(concIn)
			out := output.(concOut)
			if in.readout {
				return st.DumpVisible() == out.dump, st
			}
			if !in.allowed {
				return out.res.Class == model.AccessDenied || (out.res.Class == model.OtherError && in.op.Name == ""), st
			}
			if in.faulted && out.res.Class == model.OtherError {
				// the disk was full while this call ran: it may fail, and a
				// failed call has no effect
				return true, st
			}
			exp := st.Peek(in.op)
			if in.op.Kind == model.OpList {
				l := []model.Info{}
				for _, i := range st.List() {
					if in.super || model.Allows(in.rules, "info", i.Name) {
						l = append(l, i)
					}
				}
				exp.OK.List = l
			}
			if !exp.Classes.Has(out.res.Class) {
				return false, st
			}
			if out.res.Class != model.OK {
				return true, st
			}
			if !model.EqualRes(out.res, exp.OK) {
				return false, st
			}
			if in.op.Kind.Mutating() {
				ns := st.Clone()
				ns.Apply(in.op)
				return true, ns
			}
			return true, st
		},
		Equal: func(a, b interface{}) bool {
			return a.(*model.DB).Dump() == b.(*model.DB).Dump()
		},
		DescribeOperation: func(input, output interface{}) string {
			in := input.(concIn)
			if in.readout {
				return "final read-out"
			}
			return fmt.Sprintf("%s -> %s", in.op, output.(concOut).res)
		},
	}
}

// RunConc runs 2-4 concurrent clients over 1-2 shared names. With free=false
// the baton scheduler decides every interleaving at lock, audit, WhoIs and
// transport park points; with free=true (race-detector build) the clients run
// freely against a real audit file.
func RunConc(s *kernel.Sim, prof *Profile, free bool) *Env {
	e, err := NewEnv(s, prof)
	if err != nil {
		s.Fail("harness", err.Error())
		return nil
	}
	defer e.Close()
	t := s.T
	s.SetFree(true) // setup runs straight through
	e.DrawNames(t.Range(1, 2))
	e.HTTP = t.Bool(1, 2)
	nRestricted := t.Choice(2)
	e.MakeCallers(nRestricted, []string{"*", e.Names[0], "nomatch", e.Names[0] + "*"})
	auditPath := filepath.Join(e.Dir, "audit.log")
	unsyncable := false
	auditFull := false
	if free {
		// real audit file
		if t.Bool(1, 3) {
			// ... which already holds a previous process's records and sits
			// on a volume that fills up while the clients are at it
			auditFull = true
			var pad bytes.Buffer
			for pad.Len() < 96<<10 {
				fmt.Fprintf(&pad, `{"id":%d,"time":"1999-12-31T00:00:00Z","principal":{"hostname":"earlier.example.ts.net","ip":"100.64.0.9"},"action":"info","authorized":true}`+"\n", pad.Len())
			}
			os.WriteFile(auditPath, pad.Bytes(), 0o600)
		}
		w, err := audit.NewFile(auditPath)
		if err == nil && t.Bool(1, 6) {
			// ... or a sink that cannot be synced (the log pointed at
			// /dev/null, a FIFO, a terminal): fsync reports EINVAL, so every
			// call fails closed - concurrently
			if f, ferr := os.OpenFile("/dev/null", os.O_WRONLY, 0); ferr == nil {
				w.Close()
				w = audit.New(f)
				defer f.Close()
				unsyncable = true
				s.Fault("audit-sink-unsyncable")
			}
		}
		if err != nil {
			s.Fail(prof.Prop+".harness", err.Error())
			return e
		}
		d, err := db.Open(e.Path, e.KEK, w)
		if err != nil {
			s.Fail(prof.Prop+".harness", err.Error())
			return e
		}
		e.DB = d
		if e.HTTP {
			// Open() would replace the audit writer; build the server by hand
			if err := e.serverFor(d); err != nil {
				s.Fail(prof.Prop+".harness", err.Error())
				return e
			}
		}
	} else if err := e.Open(); err != nil {
		s.Fail(prof.Prop+".harness", err.Error())
		return e
	}
	// a sequential prologue gives the concurrent part a non-empty state to
	// fight over (several versions, a non-default active version)
	for _, nm := range e.Names {
		np := t.Choice(4)
		for i := 0; i < np; i++ {
			op := model.Op{Kind: model.OpPut, Name: nm, Value: []byte(fmt.Sprintf("MK%s-pre-%s-%d", e.nonce, nm, i))}
			if res := e.Exec(e.Super, op); res.Class == model.OK {
				e.Model.Apply(op)
			}
		}
		if np > 1 && t.Bool(1, 2) {
			op := model.Op{Kind: model.OpActivate, Name: nm, Version: uint32(t.Range(1, np))}
			if res := e.Exec(e.Super, op); res.Class == model.OK {
				e.Model.Apply(op)
			}
		}
	}
	e.tracef("initial state: %s", e.Model.DumpVisible())
	nClients := t.Range(2, 4)
	maxOps := 5
	if free {
		maxOps = 8
	}
	w := []int{2, 2, 3, 2, 4, 6, 4, 3, 2}
	if prof.CondHeavy {
		w = []int{1, 1, 1, 1, 10, 4, 8, 2, 1}
	}
	if t.Bool(1, 3) {
		// focus: version juggling on one name (reads racing activate + delete-version)
		w = []int{0, 1, 2, 2, 4, 2, 4, 4, 0}
		e.Names = e.Names[:1]
	}
	var ops []*ConcOp
	perClient := make([][]*ConcOp, nClients)
	for c := 0; c < nClients; c++ {
		caller := e.Super
		if nRestricted > 0 && t.Bool(1, 4) {
			caller = e.Callers[1]
		}
		n := t.Range(1, maxOps)
		for i := 0; i < n; i++ {
			op := model.Op{Kind: model.OpKind(t.Weighted(w))}
			if op.Kind != model.OpList {
				op.Name = e.Names[t.Choice(len(e.Names))]
			}
			switch op.Kind {
			case model.OpGetVersion, model.OpGetIfChanged, model.OpActivate, model.OpDeleteVersion:
				op.Version = uint32(t.Choice(4))
			case model.OpPut:
				switch t.Weighted([]int{7, 2, 1}) {
				case 0:
					op.Value = []byte(fmt.Sprintf("MK%s-c%d-%d", e.nonce, c, i))
				case 1:
					op.Value = []byte("same")
				default:
					op.Value = []byte{}
				}
			}
			mop := e.ModelOp(op)
			co := &ConcOp{Client: c, Caller: caller, Op: op, Faulted: unsyncable || auditFull,
				Allowed: caller.Super || mop.Kind == model.OpList || model.Allows(caller.Rules, mop.Kind.Action(), mop.Name)}
			ops = append(ops, co)
			perClient[c] = append(perClient[c], co)
		}
	}
	e.tracef("config names=%q http=%v clients=%d restricted=%d free=%v", e.Names, e.HTTP, nClients, nRestricted, free)

	var stamp atomic.Int64
	curConc := map[string]*ConcOp{}
	e.curOps = map[*kernel.Task]*OpCtx{}
	var wg sync.WaitGroup
	client := func(c int) func(*kernel.Task) {
		return func(task *kernel.Task) {
			defer wg.Done()
			for _, co := range perClient[c] {
				s.Park("op", fmt.Sprintf("client%d", c), nil, nil, nil)
				co.Call = stamp.Add(1)
				if task != nil {
					e.opMu.Lock()
					curConc[task.Name] = co
					e.opMu.Unlock()
				}
				var octx *OpCtx
				if task != nil {
					e.opMu.Lock()
					e.opSeq++
					octx = &OpCtx{Seq: e.opSeq, Caller: co.Caller, Op: co.Op}
					e.curOps[task] = octx
					e.opMu.Unlock()
				}
				co.Res = e.Exec(co.Caller, co.Op)
				co.Ret = stamp.Add(1)
				if octx != nil {
					// C06: every audit record of this call was synced before it returned
					e.Sink.mu.Lock()
					for _, r := range e.Sink.Recs {
						// (a call that failed for another reason promises nothing about its record)
						if r.OpSeq == octx.Seq && !r.Synced && (co.Res.Class == model.OK || co.Res.Class == model.AccessDenied) {
							e.fail("audit-sync", "client %d %s -> %s: the call returned although its audit record had not been synced (a sync that was already in flight when the record was written does not cover it): %s", c, co.Op, co.Res, r.Data)
						}
					}
					e.Sink.mu.Unlock()
					e.opMu.Lock()
					delete(e.curOps, task)
					e.opMu.Unlock()
				}
				co.Done = true
				s.Log("client %d %s -> %s", c, co.Op, co.Res)
			}
		}
	}

	if free {
		stopFull := make(chan struct{})
		if auditFull && !unsyncable {
			// after a few calls the volume has room for about one more record
			after := int64(2 * t.Range(1, 6))
			go func() {
				for stamp.Load() < after {
					select {
					case <-stopFull:
						return
					default:
						runtime.Gosched()
					}
				}
				if fi, err := os.Stat(auditPath); err == nil {
					setFileSizeLimit(uint64(fi.Size()) + 330)
					s.Fault("audit-volume-full")
				}
			}()
		}
		for c := 0; c < nClients; c++ {
			wg.Add(1)
			go client(c)(nil)
		}
		wg.Wait()
		close(stopFull)
		setFileSizeLimit(0)
	} else {
		e.parkAudit, e.parkHTTP = true, true
		s.SetFree(false)
		for c := 0; c < nClients; c++ {
			wg.Add(1)
			s.Go(fmt.Sprintf("client%d", c), client(c))
		}
		// Half of the runs use priority scheduling (PCT style): every client
		// gets a random priority, the highest-priority enabled ticket runs, and
		// at a few random steps the running client drops to the bottom. This
		// lets one client sit parked inside an operation while another runs
		// several whole operations - interleavings that a uniform choice at
		// every step reaches only with exponentially small probability.
		pct := t.Bool(1, 2)
		prio := map[string]int{}
		changeAt := map[int]bool{}
		if pct {
			perm := make([]int, nClients)
			for i := range perm {
				perm[i] = i
			}
			for i := nClients - 1; i > 0; i-- {
				j := t.Choice(i + 1)
				perm[i], perm[j] = perm[j], perm[i]
			}
			for c := 0; c < nClients; c++ {
				prio[fmt.Sprintf("client%d", c)] = perm[c] + 10
			}
			for k := t.Range(1, 3); k > 0; k-- {
				changeAt[t.Choice(12*len(ops)+1)] = true
			}
		}
		low := 0
		for steps := 0; ; steps++ {
			all, en := s.Tickets()
			if len(all) == 0 {
				break
			}
			if len(en) == 0 {
				e.fail("deadlock", "all %d parked tasks wait for a lock that is never released: %v", len(all), all)
				break
			}
			if len(en) < len(all) {
				s.Contended++
				s.Probe("lock-contention")
			}
			if steps > 5000 {
				e.fail("deadlock", "no progress after %d steps", steps)
				break
			}
			pick := en[0]
			if pct {
				for _, tk := range en {
					if prio[tk.Task.Name] > prio[pick.Task.Name] {
						pick = tk
					}
				}
				if changeAt[steps] {
					low--
					prio[pick.Task.Name] = low
				}
			} else {
				pick = en[t.Choice(len(en))]
			}
			diskFull := false
			if prof.DiskFaults && pick.Kind == "lock" && strings.HasPrefix(pick.Site, "db/") && t.Bool(1, 6) {
				e.opMu.Lock()
				co := curConc[pick.Task.Name]
				e.opMu.Unlock()
				if co != nil && !co.Done && co.Op.Kind.Mutating() {
					// the disk is full for the duration of this step: whatever
					// the released goroutine writes beyond a few bytes fails
					co.Faulted = true
					diskFull = true
					if t.Bool(1, 4) {
						setNoFileLimit(true)
						s.Fault("fd-exhausted-window")
					} else {
						setFileSizeLimit(48)
						s.Fault("disk-full-window")
					}
				}
			}
			s.Release(pick)
			if diskFull {
				setFileSizeLimit(0)
				setNoFileLimit(false)
			}
			if s.Failed() {
				break
			}
		}
		s.SetFree(true)
		e.parkAudit, e.parkHTTP = false, false
		s.Drain()
		wg.Wait()
	}
	if s.Failed() {
		return e
	}
	e.curOps = nil
	if unsyncable {
		// nothing can be read out through a handle whose audit log cannot be
		// synced; this configuration is for the race detector
		for _, co := range ops {
			if co.Res.Class == model.OK {
				e.fail("linearizable", "client %d %s -> %s although the audit log cannot be synced (fsync reports EINVAL): the call must fail closed", co.Client, co.Op, co.Res)
			}
		}
		e.Ops += len(ops)
		return e
	}

	// ---- judge: linearizability against the map model ----
	if auditFull {
		// the audit writer of the running handle may be broken for good by
		// now (every call, the observer's included, fails closed): read the
		// state out through a fresh handle on the same file
		d2, err := db.Open(e.Path, e.KEK, audit.New(discard{}))
		if err != nil {
			e.fail("linearizable", "after the run the database file does not open: %v", err)
			return e
		}
		e.DB = d2
	}
	dump, err := e.Observe()
	if err != nil {
		e.fail("linearizable", "final read-out failed: %v", err)
		return e
	}
	var hist []porcupine.Operation
	for _, co := range ops {
		if !co.Done {
			e.fail("deadlock", "operation %s of client %d never returned", co.Op, co.Client)
			return e
		}
		hist = append(hist, porcupine.Operation{ClientId: co.Client,
			Input: concIn{op: e.ModelOp(co.Op), allowed: co.Allowed, rules: co.Caller.Rules, super: co.Caller.Super, faulted: co.Faulted},
			Call:  co.Call, Output: concOut{res: co.Res}, Return: co.Ret})
		e.Ops++
	}
	end := stamp.Add(1)
	hist = append(hist, porcupine.Operation{ClientId: nClients, Input: concIn{readout: true}, Call: end, Output: concOut{dump: dump}, Return: end + 1})
	sort.Slice(ops, func(i, j int) bool { return ops[i].Call < ops[j].Call })
	for _, co := range ops {
		e.Trace = append(e.Trace, fmt.Sprintf("[%d,%d] client %d caller %d %s -> %s", co.Call, co.Ret, co.Client, co.Caller.ID, co.Op, co.Res))
	}
	e.Trace = append(e.Trace, "final state: "+dump)
	// direct invariants (cheap, readable)
	seen := map[string][]byte{}
	for _, co := range ops {
		if co.Op.Kind == model.OpPut && co.Res.Class == model.OK {
			key := fmt.Sprintf("%s/%d", co.Op.Name, co.Res.Version)
			if prev, ok := seen[key]; ok && !bytes.Equal(prev, co.Op.Value) {
				// legal only if the name was deleted in between; leave the verdict to porcupine
				s.Probe("same-version-two-values")
			}
			seen[key] = co.Op.Value
		}
	}
	res := porcupine.CheckOperationsTimeout(porcupineModel(e.Model), hist, 30*time.Second)
	switch res {
	case porcupine.Illegal:
		e.fail("linearizable", "history is not linearizable against the sequential model:\n%s", joinLines(e.Trace))
	case porcupine.Unknown:
		s.Probe("porcupine-timeout")
	default:
		s.Probe("porcupine-ok")
	}

	if e.Prof.Oracles["disk-equals-served"] {
		// C04: whatever failed or succeeded, the file on disk holds exactly
		// the state the running server serves
		d2, err := db.Open(e.Path, e.KEK, audit.New(discard{}))
		if err != nil {
			e.fail("disk-equals-served", "after the run the database file does not open: %v", err)
		} else {
			old := e.DB
			e.DB = d2
			onDisk, derr := e.Observe()
			e.DB = old
			if derr != nil || onDisk != dump {
				e.fail("disk-equals-served", "the file on disk does not hold the state the running server serves (%v):\n disk: %s\nserved: %s\n%s", derr, onDisk, dump, joinLines(e.Trace))
			} else {
				s.Probe("disk-equals-served")
			}
		}
	}
	if free {
		if !unsyncable {
			e.judgeAuditFile(auditPath, ops, auditFull)
		}
		e.auditFileSharing()
	}
	return e
}

// setFileSizeLimit sets (n > 0) or lifts (n == 0) the process's soft file
// size limit: the in-process way of making the disk "full" for one step.
// SIGXFSZ is ignored (see TestMain), so writes fail with EFBIG.
func setFileSizeLimit(n uint64) { SetFileSizeLimit(n) }

// SetFileSizeLimit: see setFileSizeLimit.
func SetFileSizeLimit(n uint64) {
	var lim syscall.Rlimit
	if err := syscall.Getrlimit(syscall.RLIMIT_FSIZE, &lim); err != nil {
		return
	}
	if n == 0 {
		lim.Cur = lim.Max
	} else {
		lim.Cur = n
	}
	syscall.Setrlimit(syscall.RLIMIT_FSIZE, &lim)
}

var noFileSaved uint64

// setNoFileLimit makes every attempt to open a file fail with EMFILE (on) or
// restores the limit (off): the process has run out of file descriptors.
func setNoFileLimit(on bool) {
	var lim syscall.Rlimit
	if err := syscall.Getrlimit(syscall.RLIMIT_NOFILE, &lim); err != nil {
		return
	}
	if on {
		if noFileSaved == 0 {
			noFileSaved = lim.Cur
		}
		lim.Cur = 0
	} else {
		if noFileSaved == 0 {
			return
		}
		lim.Cur = noFileSaved
		noFileSaved = 0
	}
	syscall.Setrlimit(syscall.RLIMIT_NOFILE, &lim)
}

// auditFileSharing: the audit log is an O_APPEND file, so (a) two writers on
// the same path - an old and a new server overlapping during a restart - and
// (b) an operator truncating the log while it is open (copytruncate rotation)
// must not make records overwrite each other or land behind a hole.
func (e *Env) auditFileSharing() {
	if !e.Prof.Oracles["audit-file"] {
		return
	}
	p := filepath.Join(e.Dir, "shared-audit.log")
	w1, err1 := audit.NewFile(p)
	w2, err2 := audit.NewFile(p)
	if err1 != nil || err2 != nil {
		return
	}
	const n = 40
	var wg sync.WaitGroup
	for i, w := range []*audit.Writer{w1, w2} {
		wg.Add(1)
		go func(i int, w *audit.Writer) {
			defer wg.Done()
			for k := 0; k < n; k++ {
				w.WriteEntries(&audit.Entry{Action: "get", Secret: fmt.Sprintf("w%d-%d", i, k), Authorized: true})
			}
		}(i, w)
	}
	wg.Wait()
	count := func() (whole int, bad string) {
		b, _ := os.ReadFile(p)
		for _, line := range bytes.Split(bytes.TrimRight(b, "\n"), []byte("\n")) {
			var l auditLine
			if len(line) == 0 {
				continue
			}
			if json.Unmarshal(line, &l) != nil || l.Authorized == nil {
				return whole, string(trunc80(line))
			}
			whole++
		}
		return whole, ""
	}
	if got, bad := count(); bad != "" || got != 2*n {
		e.fail("audit-file", "two writers appended %d records to one audit file; it holds %d whole records (first damaged line: %q)", 2*n, got, bad)
	}
	// copytruncate rotation while the log is open
	os.Truncate(p, 0)
	for k := 0; k < 3; k++ {
		w1.WriteEntries(&audit.Entry{Action: "get", Secret: fmt.Sprintf("after-truncate-%d", k), Authorized: true})
	}
	if got, bad := count(); bad != "" || got != 3 {
		e.fail("audit-file", "after the log was truncated while open, 3 records were written; the file holds %d whole records (first damaged line: %q)", got, bad)
	}
	w1.Close()
	w2.Close()
	e.S.Probe("audit-file-sharing-checked")
}

func trunc80(b []byte) []byte {
	if len(b) > 80 {
		return b[:80]
	}
	return b
}

func joinLines(l []string) string {
	var b bytes.Buffer
	for _, x := range l {
		b.WriteString(x)
		b.WriteByte('\n')
	}
	return b.String()
}

// judgeAuditFile: with concurrent writers on a real O_APPEND audit file every
// line must be whole, and every expected record must be present.
func (e *Env) judgeAuditFile(path string, ops []*ConcOp, faultMode bool) {
	if !e.Prof.Oracles["audit-file"] {
		return
	}
	f, err := os.Open(path)
	if err != nil {
		e.fail("audit-file", "audit file: %v", err)
		return
	}
	defer f.Close()
	if fi, _ := f.Stat(); fi != nil && fi.Mode().Perm()&0o077 != 0 {
		e.fail("audit-file", "audit file mode %v is not owner-only", fi.Mode().Perm())
	}
	got := map[string]int{}
	whole, _ := os.ReadFile(path)
	nLines := bytes.Count(whole, []byte("\n"))
	sc := bufio.NewScanner(f)
	sc.Buffer(make([]byte, 1<<20), 1<<20)
	n := 0
	for sc.Scan() {
		n++
		var l auditLine
		if faultMode && n == nLines+1 {
			// the torn fragment of the append that hit the full disk, at the
			// very end of the file: nothing was (or could be) appended after it
			e.S.Probe("audit-file-torn-tail")
			break
		}
		if err := json.Unmarshal(sc.Bytes(), &l); err != nil || l.Authorized == nil || l.ID == nil {
			e.fail("audit-file", "audit file line %d is not a whole record (interleaved or truncated): %q", n, sc.Text())
			return
		}
		got[fmt.Sprintf("%s|%s|%s|%d|%v", l.Principal.Hostname, l.Action, l.Secret, l.SecretVersion, *l.Authorized)]++
	}
	want := map[string]int{}
	for _, co := range ops {
		mop := e.ModelOp(co.Op)
		v := uint32(0)
		switch mop.Kind {
		case model.OpGetVersion, model.OpActivate, model.OpDeleteVersion:
			v = mop.Version
		}
		auth := co.Allowed
		if co.Allowed && co.Res.Class != model.OK && mop.Kind != model.OpGetIfChanged {
			continue // nothing returned, nothing took effect: no record required
		}
		if !co.Allowed && (co.Res.Class != model.AccessDenied || faultMode) {
			// not refused for lack of permission but failed some other way; or
			// refused while the log could not be written (the refusal stands,
			// the record cannot exist)
			continue
		}
		switch {
		case mop.Kind == model.OpList:
			want[fmt.Sprintf("%s|info||0|true", co.Caller.Node)]++
			continue
		case (mop.Kind == model.OpPut || mop.Kind == model.OpActivate) && mop.Name == "":
			continue
		case mop.Kind == model.OpGetIfChanged:
			if co.Allowed && co.Res.Class != model.OK {
				continue
			}
		}
		want[fmt.Sprintf("%s|%s|%s|%d|%v", co.Caller.Node, mop.Kind.Action(), mop.Name, v, auth)]++
	}
	wk := make([]string, 0, len(want))
	for k := range want {
		wk = append(wk, k)
	}
	sort.Strings(wk)
	for _, k := range wk {
		c := want[k]
		if got[k] < c {
			e.fail("audit-file", "audit file holds %d record(s) %s, expected at least %d (a record was lost)", got[k], k, c)
			return
		}
	}
	e.S.Probe("audit-file-checked")
}
