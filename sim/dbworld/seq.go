package dbworld

import (
	"bytes"
	"encoding/base64"
	"encoding/hex"
	"encoding/json"
	"fmt"
	"html"
	"net/http/httptest"
	"os"
	"path/filepath"
	"regexp"
	"sort"
	"strings"
	"syscall"
	"time"

	"verifsim/kernel"
	"verifsim/model"
)

// Profile selects workload features and the oracles a check owns.
type Profile struct {
	Prop        string
	Restricted  int  // max restricted callers
	HTTPMode    int  // 0 never, 1 coin, 2 always
	RestartMode int  // 0 never, 1 coin between random/every-op, 2 every op, 3 a third of the runs at random points
	AuditFaults bool // C06
	Corruptions bool // C08
	Scan        bool // C05 marker scan
	KEKOutage   bool // C05
	RuleChanges bool // C01/C08: a caller's grants change between requests (same address)
	DiskFaults  bool // C04 (concurrent engine): the disk is full during chosen steps
	HugeValues  bool // one run in 25 also puts values beyond a mebibyte
	Soak        bool // one run in forty ends with a long stretch (1000-2000) of cheap writes in one process
	Symlinks    bool // the database path may become a symbolic link before a reopen
	Dashboard   bool // the HTML listing at / is fetched too
	KEKRotate   bool // C03, C05: the operator rotates the key-encryption key (new primary, old keys kept) before some reopens
	LaxModes    bool // C03: the file may have been given a lax mode by an operator before a reopen
	CondHeavy   bool // C09
	FileClient  bool // C09: judge FileClient on a file generated from the model
	Golden      bool // C03: sometimes start from a golden v1 file
	MaxOps      int
	MaxNames    int
	Oracles     map[string]bool // enabled oracle kinds
}

func (e *Env) fail(kind, format string, a ...any) {
	if e.Prof.Oracles[kind] {
		e.S.Fail(e.Prof.Prop+"."+kind, fmt.Sprintf(format, a...))
	}
}

func (e *Env) tracef(format string, a ...any) {
	msg := fmt.Sprintf(format, a...)
	if len(e.Trace) < 200 {
		e.Trace = append(e.Trace, msg)
	}
	e.S.Note("%s", msg)
}

type seqState struct {
	deniedText map[model.OpKind]string
}

// RunSeq runs one sequential history under prof and returns the env (closed).
func RunSeq(s *kernel.Sim, prof *Profile) *Env {
	s.SetFree(true)
	e, err := NewEnv(s, prof)
	if err != nil {
		s.Fail("harness", err.Error())
		return nil
	}
	defer e.Close()
	t := s.T

	// ---- swarm configuration ----
	if prof.Scan {
		e.DrawMarkerNames(t.Range(1, prof.MaxNames))
	} else {
		e.DrawNames(t.Range(1, prof.MaxNames))
	}
	switch prof.HTTPMode {
	case 1:
		e.HTTP = t.Bool(1, 2)
	case 2:
		e.HTTP = true
	}
	nRestricted := 0
	if prof.Restricted > 0 {
		nRestricted = t.Range(1, prof.Restricted)
	}
	e.MakeCallers(nRestricted, patternPool)
	restartEvery, restartRandom := false, false
	switch prof.RestartMode {
	case 1:
		if t.Bool(1, 2) {
			restartEvery = true
		} else {
			restartRandom = true
		}
	case 2:
		restartEvery = true
	case 3:
		restartRandom = t.Bool(1, 3)
	}
	nOps := t.Range(3, prof.MaxOps)
	w := make([]int, model.NumOps)
	for i := range w {
		w[i] = t.Range(0, 4)
	}
	w[model.OpPut] += 3
	if prof.CondHeavy {
		w[model.OpGetIfChanged] += 8
		w[model.OpActivate] += 3
	}
	faultRun := false
	if prof.AuditFaults {
		faultRun = t.Bool(1, 2)
	}
	corruptRun := prof.Corruptions
	outageRun := prof.KEKOutage && t.Bool(1, 2)
	e.diskFaultRun = prof.DiskFaults && t.Bool(1, 2)
	e.hugeRun = prof.HugeValues && t.Bool(1, 25)
	soak := 0
	if prof.Soak && t.Bool(1, 40) {
		soak = 1030 + t.Choice(1100)
	}
	golden := ""
	if prof.Golden && t.Bool(1, 3) {
		golden = pickGolden(e)
	}
	e.tracef("config names=%q http=%v callers=%d restartEvery=%v restartRandom=%v ops=%d auditFaults=%v outage=%v golden=%q",
		e.Names, e.HTTP, nRestricted, restartEvery, restartRandom, nOps, faultRun, outageRun, golden)
	for _, c := range e.Callers[1:] {
		e.tracef("caller %d rules=%v legacy=%v", c.ID, c.Rules, c.LegacyCap)
	}

	if err := e.Open(); err != nil {
		e.fail("open", "initial open failed: %v", err)
		s.Fail("harness", "initial open failed: "+err.Error())
		return e
	}
	if golden != "" {
		if got, err := e.Observe(); err != nil {
			e.fail("golden", "golden file %s: %v", golden, err)
		} else if want := e.Model.DumpVisible(); got != want {
			e.fail("golden", "golden file %s opened with different contents:\n got: %s\nwant: %s", golden, got, want)
		}
	}
	if outageRun {
		e.KEK.Outage = true
		s.Fault("kek-outage")
	}
	if e.Prof.Scan {
		e.scanFiles("after create")
	}
	st := &seqState{deniedText: map[model.OpKind]string{}}

	for i := 0; i < nOps && !s.Failed(); i++ {
		// who
		c := e.Super
		if nRestricted > 0 && t.Bool(3, 5) {
			c = e.Callers[1+t.Choice(nRestricted)]
		}
		if prof.RuleChanges && c != e.Super && t.Bool(1, 6) {
			// the tailnet policy changes: same address, new grants (or none)
			e.redrawRules(c)
			e.tracef("caller %d now has rules=%v", c.ID, c.Rules)
			s.Fault("grants-changed")
		}
		op := e.GenOp(w, true)
		if faultRun && t.Bool(1, 4) {
			e.Sink.mu.Lock()
			e.Sink.FailAt = e.Sink.n + t.Choice(2)
			e.Sink.FailKind = t.Weighted([]int{3, 3, 3, 1, 1})
			e.Sink.StallD = []time.Duration{time.Second, 6 * time.Second, 31 * time.Second, 2 * time.Minute, 11 * time.Minute}[t.Choice(5)]
			e.Sink.mu.Unlock()
		}
		var cor *Corruption
		whoFault := 0
		if corruptRun && e.HTTP && t.Bool(2, 5) {
			if t.Bool(1, 4) {
				whoFault = 1 + t.Choice(WhoNumKinds-1)
				e.WhoIsFault[c.Addr] = whoFault
			} else {
				cor = e.genCorruption(op)
				e.Corrupt = cor
			}
		}
		e.step(st, c, op, cor, whoFault)
		e.Sink.mu.Lock()
		e.Sink.FailAt = -1
		e.Sink.mu.Unlock()
		e.Corrupt = nil
		delete(e.WhoIsFault, c.Addr)
		if e.HTTP && prof.Dashboard && !s.Failed() && !e.auditLatched && t.Bool(1, 4) {
			who := c
			if nRestricted > 0 && t.Bool(1, 2) {
				who = e.Callers[1+t.Choice(nRestricted)]
			}
			e.dashboard(who)
		}
		e.Corrupt = nil
		delete(e.WhoIsFault, c.Addr)
		if s.Failed() {
			break
		}
		if restartEvery || (restartRandom && t.Bool(1, 4)) {
			if outageRun {
				// a restart needs the key service; end the outage for it
				e.KEK.Outage = false
			}
			e.restart()
			if outageRun {
				e.KEK.Outage = true
			}
		}
	}
	if e.stallSeen {
		time.Sleep(12 * time.Minute) // nothing of a slow flush is left in flight when the run ends
	}
	if !s.Failed() && soak > 0 {
		e.soak(soak)
	}
	if !s.Failed() && prof.FileClient {
		e.checkFileClient()
	}
	if !s.Failed() && e.KEK.Count() != e.KekBase {
		e.fail("kek", "the key-encryption key was consulted %d times outside Open/create", e.KEK.Count()-e.KekBase)
	}
	return e
}

var dashRow = regexp.MustCompile(`(?s)<td>(.*?)</td>`) // any cell: the layout is not the property's business

// dashboard fetches the HTML listing at / as c: it shows metadata, so it is
// bound by the same rule as list - exactly the secrets on which the caller
// holds info, never a value.
func (e *Env) dashboard(c *Caller) {
	req := httptest.NewRequest("GET", "/", nil)
	req.RemoteAddr = c.Addr
	for _, k := range sortedKeys(c.Headers) {
		req.Header.Set(k, c.Headers[k])
	}
	rec := httptest.NewRecorder()
	e.Mux.ServeHTTP(rec, req)
	body := rec.Body.Bytes()
	e.tracef("caller %d GET / -> %d (%d bytes)", c.ID, rec.Code, len(body))
	if m := e.containsMarker(body); m != nil {
		e.fail("list", "caller %d GET /: the HTML listing contains secret value bytes %q", c.ID, m)
	}
	if rec.Code != 200 {
		return
	}
	// (html/template renders a NUL as U+FFFD)
	norm := func(n string) string { return strings.ReplaceAll(n, "\x00", "\uFFFD") }
	want := map[string]bool{}
	for _, i := range e.listFor(c) {
		want[norm(i.Name)] = true
	}
	all := map[string]bool{}
	for _, n := range e.Model.Names() {
		all[norm(n)] = true
	}
	shown := map[string]bool{}
	for _, m := range dashRow.FindAllSubmatch(body, -1) {
		shown[html.UnescapeString(string(m[1]))] = true
	}
	for _, n := range sortedBoolKeys(shown) {
		if !want[n] && all[n] {
			e.fail("list", "caller %d GET /: the HTML listing shows secret %q, on which the caller holds no info grant (rules %v)", c.ID, n, c.Rules)
		}
	}
	if bytes.Contains(body, []byte("<th>Name</th>")) {
		for _, n := range sortedBoolKeys(want) {
			if !shown[n] {
				e.fail("list", "caller %d GET /: the HTML listing lacks secret %q, on which the caller holds info", c.ID, n)
			}
		}
	}
	e.S.Probe("dashboard")
}

func sortedBoolKeys(m map[string]bool) []string {
	var ks []string
	for k := range m {
		ks = append(ks, k)
	}
	sort.Strings(ks)
	return ks
}

// soak: a long stretch of writes in one process lifetime (nothing in the
// statement is limited to short histories: counters, periodic maintenance
// and size thresholds only show after many saves). Each call is judged by
// its result; the state is compared at the end and after a restart.
func (e *Env) soak(n int) {
	e.S.Fault("soak")
	name := "soak/" + e.nonce
	for i := 0; i < n && !e.S.Failed(); i++ {
		op := model.Op{Kind: model.OpPut, Name: name, Value: []byte(fmt.Sprintf("MK%s-soak-%d", e.nonce, i))}
		if i%64 == 63 {
			op = model.Op{Kind: model.OpDelete, Name: name}
		}
		exp := e.Model.Peek(op)
		res := e.Exec(e.Super, op)
		e.Ops++
		if res.Class != model.OK || !model.EqualRes(res, exp.OK) {
			e.fail("result", "write %d of a long stretch of writes: %s returned %s, model says %s", i+1, op, res, exp.OK)
			return
		}
		e.Model.Apply(op)
	}
	e.tracef("soak: %d writes", n)
	if got, err := e.Observe(); err != nil || got != e.Model.DumpVisible() {
		e.fail("state", "after %d writes in a row the observable state differs from the model (%v)", n, err)
	}
	if e.Prof.Scan {
		e.scanFiles("after a long stretch of writes")
	}
	if e.KEK.Count() != e.KekBase {
		e.fail("kek", "the key-encryption key was consulted %d times during a long stretch of writes", e.KEK.Count()-e.KekBase)
	}
	if e.Prof.RestartMode != 0 {
		out := e.KEK.Outage
		e.KEK.Outage = false // a restart needs the key service
		e.restart()
		e.KEK.Outage = out
	}
}

// restart drops the handle and reopens the same file with the same key.
func (e *Env) restart() { e.restartAs("restart", "") }

func (e *Env) restartAs(kind, what string) {
	e.auditLatched = false
	e.Sink.mu.Lock()
	e.Sink.Stream = nil // a new process; what a predecessor left at the end of the log is not judged
	e.Sink.mu.Unlock()
	lax := false
	if e.Prof.LaxModes && e.T.Bool(1, 3) {
		// an operator restored the file from a backup with a lax mode
		os.Chmod(e.Path, []os.FileMode{0o644, 0o640, 0o664}[e.T.Choice(3)])
		lax = true
		e.S.Fault("lax-file-mode")
		// this one file is the operator's doing; whatever replaces it is a
		// newly created file again
		var st syscall.Stat_t
		syscall.Stat(e.Path, &st)
		e.laxIno = st.Ino
	}
	_ = lax
	if e.Prof.KEKRotate && e.T.Bool(1, 4) && e.KEK.Rotate() {
		e.S.Fault("kek-rotated")
	}
	if e.Prof.Symlinks && e.T.Bool(1, 6) {
		// an operator moved the database to another volume and left a
		// (relative) symbolic link at the configured path
		if fi, err := os.Lstat(e.Path); err == nil && fi.Mode().IsRegular() {
			e.nLinks++
			rel := filepath.Join("data", fmt.Sprintf("real-%d.db", e.nLinks))
			os.MkdirAll(filepath.Join(e.Dir, "data"), 0o700)
			if os.Rename(e.Path, filepath.Join(e.Dir, rel)) == nil {
				if err := os.Symlink(rel, e.Path); err != nil {
					os.Rename(filepath.Join(e.Dir, rel), e.Path)
				} else {
					e.S.Fault("db-path-is-symlink")
				}
			}
		}
	}
	before := e.ReadFile()
	var stB syscall.Stat_t
	syscall.Stat(e.Path, &stB)
	if err := e.Open(); err != nil {
		e.fail(kind, "%s reopen failed: %v", what, err)
		e.S.Fail(e.Prof.Prop+".harness", "reopen failed: "+err.Error())
		return
	}
	e.S.Probe("restart")
	after := e.ReadFile()
	var stA syscall.Stat_t
	syscall.Stat(e.Path, &stA)
	if !bytes.Equal(before, after) || stB.Ino != stA.Ino || stB.Mtim != stA.Mtim {
		e.fail("open-modifies", "Open modified the database file (bytes equal=%v inode %d->%d mtime %v->%v)",
			bytes.Equal(before, after), stB.Ino, stA.Ino, stB.Mtim, stA.Mtim)
	}
	got, err := e.Observe()
	if err != nil {
		e.fail(kind, "%s after restart: %v", what, err)
		return
	}
	if want := e.Model.DumpVisible(); got != want {
		e.fail(kind, "%s state after restart differs from acknowledged state:\n got: %s\nwant: %s", what, got, want)
	}
	e.tracef("restart")
}

func (e *Env) listFor(c *Caller) []model.Info {
	out := []model.Info{}
	for _, i := range e.Model.List() {
		if c.Super || model.Allows(c.Rules, "info", i.Name) {
			out = append(out, i)
		}
	}
	return out
}

func (e *Env) containsMarker(b []byte) []byte {
	for _, m := range e.markers {
		if bytes.Contains(b, m) {
			return m
		}
	}
	return nil
}

// step executes one op and judges it.
func (e *Env) step(st *seqState, c *Caller, op model.Op, cor *Corruption, whoFault int) {
	e.opSeq++
	e.Ops++
	ctx := &OpCtx{Seq: e.opSeq, Caller: c, Op: op, PreFile: e.ReadFile()}
	e.seqOp = ctx
	e.seqHTTP = nil
	e.Sink.mu.Lock()
	auditStart := len(e.Sink.Recs)
	e.Sink.Stalled = false
	e.Sink.mu.Unlock()
	if e.Prof.Oracles["audit-order"] {
		e.Sink.OnWrite = func([]byte) {
			if !bytes.Equal(e.ReadFile(), ctx.PreFile) {
				e.fail("audit-order", "%s by caller %d: the database file had already changed when the audit record was written", op, c.ID)
			}
		}
		e.Sink.OnSync = func() {
			if !bytes.Equal(e.ReadFile(), ctx.PreFile) {
				e.fail("audit-order", "%s by caller %d: the database file had already changed when the audit record was synced", op, c.ID)
			}
		}
	}
	diskFull := false
	if e.Prof.DiskFaults && e.diskFaultRun && op.Kind.Mutating() && e.T.Bool(1, 5) {
		// the disk is full for the duration of this call
		diskFull = true
		// how much room is left: none to speak of, or about the size of the
		// current file (a save then fails part-way through, or - if the new
		// image is smaller - succeeds)
		lim := uint64(48)
		switch cur := len(ctx.PreFile); e.T.Weighted([]int{2, 3, 1}) {
		case 1:
			lim = uint64(cur + e.T.Range(1, 48))
		case 2:
			if cur > 200 {
				lim = uint64(cur - e.T.Range(1, 100))
			}
		}
		if e.T.Bool(1, 5) {
			// ... or the process is out of file descriptors: no file can be
			// opened at all, not even to look at what is there
			lim = 0
			setNoFileLimit(true)
			e.S.Fault("fd-exhausted-call")
		} else {
			setFileSizeLimit(lim)
			e.S.Fault("disk-full-call")
		}
	}
	res := e.Exec(c, op)
	if diskFull {
		setFileSizeLimit(0)
		setNoFileLimit(false)
	}
	e.Sink.mu.Lock()
	stalled, stallD := e.Sink.Stalled, e.Sink.StallD
	e.Sink.mu.Unlock()
	if stalled {
		// the audit log was slow during this call: if the server gave up
		// waiting, whatever it left behind (a handler still running, a flush
		// still in flight - possibly holding the database lock) has finished
		// by the time anything is judged
		e.stallSeen = true
		time.Sleep(stallD + time.Second)
	}
	e.seqOp = nil
	e.Sink.OnWrite, e.Sink.OnSync = nil, nil
	hr := e.seqHTTP
	post := e.ReadFile()
	e.Sink.mu.Lock()
	recs := append([]AuditRec(nil), e.Sink.Recs[auditStart:]...)
	e.Sink.mu.Unlock()

	desc := fmt.Sprintf("op %d caller %d %s", ctx.Seq, c.ID, op)
	if cor != nil {
		desc += " [corrupt " + cor.Kind + "/" + cor.Class + "]"
	}
	if whoFault != 0 {
		desc += fmt.Sprintf(" [whois fault %d]", whoFault)
	}
	e.tracef("%s -> %s", desc, res)

	unchanged := bytes.Equal(ctx.PreFile, post)
	jop := op
	if cor != nil && cor.Class == "zero-request" {
		// null / {} decode to the zero request of that endpoint
		jop = model.Op{Kind: op.Kind}
		if jop.Kind == model.OpGetVersion || jop.Kind == model.OpGetIfChanged {
			jop.Kind = model.OpGet
		}
		cor.Class = "well-formed"
	}
	if cor != nil && cor.Eff != nil {
		jop = *cor.Eff
	}
	mop := e.ModelOp(jop)
	rules := c.Rules
	super := c.Super && whoFault != WhoEmptyGrants

	// ---- no non-200 reply carries secret bytes; 304 has an empty body ----
	if hr != nil {
		if hr.Status != 200 {
			if m := e.containsMarker(hr.Body); m != nil {
				e.fail("http-leak", "%s: reply with status %d contains secret bytes %q", desc, hr.Status, m)
			}
		}
		if hr.Status == 200 && (op.Kind == model.OpList || op.Kind == model.OpInfo) {
			if m := e.containsMarker(hr.Body); m != nil {
				e.fail("http-leak", "%s: a metadata reply contains secret value bytes %q", desc, m)
			}
		}
		if hr.Status == 304 && len(hr.Body) != 0 {
			e.fail("http-status", "%s: 304 reply has a body of %d bytes", desc, len(hr.Body))
		}
	}

	// ---- C08: ill-formed or unidentified requests ----
	rejected := false
	if cor != nil || whoFault != 0 {
		class := "ill-formed"
		if cor != nil {
			class = cor.Class
		}
		if whoFault == WhoEmptyGrants {
			class = "well-formed"
			rules = nil
		}
		if hr == nil {
			e.S.Fail(e.Prof.Prop+".harness", "no HTTP record for corrupted request")
			return
		}
		ok2xx := hr.Status >= 200 && hr.Status < 300
		switch class {
		case "ill-formed":
			if ok2xx {
				e.fail("http-gate", "%s: ill-formed/unidentified request answered with status %d", desc, hr.Status)
			}
			rejected = true
		case "unspecified":
			// may be accepted or refused; a refusal by the front door shows
			// as a 4xx/5xx other than the store's own 403/404
			// (a store-side failure also yields 4xx/5xx, but only after the
			// audit record of the permission decision was written)
			if hr.Status >= 400 && hr.Status != 403 && hr.Status != 404 && len(recs) == 0 && !ctx.AuditFail {
				rejected = true // (a request whose audit write failed did reach the store)
			}
		}
		if rejected {
			if !unchanged {
				e.fail("http-gate", "%s: rejected request (status %d) changed the database file", desc, hr.Status)
			}
			if len(recs) != 0 {
				e.fail("http-gate", "%s: rejected request (status %d) reached the store: audit record %s", desc, hr.Status, recs[0].Data)
			}
			if ctx.AuditFail {
				e.fail("http-gate", "%s: rejected request (status %d) reached the store: it attempted an audit write", desc, hr.Status)
			}
			if res.Class == model.OK {
				e.fail("http-gate", "%s: rejected request produced a successful result", desc)
			}
			if got, err := e.Observe(); err == nil && got != e.Model.DumpVisible() {
				e.fail("http-gate", "%s: rejected request changed state", desc)
			}
			return
		}
	}

	allowed := super || mop.Kind == model.OpList || model.Allows(rules, mop.Kind.Action(), mop.Name)
	illFormed := (mop.Name == "" && (mop.Kind == model.OpPut || mop.Kind == model.OpActivate)) ||
		(mop.Version == 0 && (mop.Kind == model.OpActivate || mop.Kind == model.OpDeleteVersion))

	// ---- C05: the audit log carries names and versions, never values ----
	if e.Prof.Oracles["audit-noleak"] {
		for _, r := range recs {
			for _, m := range e.markers {
				for _, enc := range encodings(m) {
					if bytes.Contains(r.Data, enc) {
						e.fail("plaintext", "%s: the audit record contains a secret value (marker %q in form %q): %s", desc, m, enc, r.Data)
					}
				}
			}
		}
	}

	// ---- C09: "not modified" is only ever said when the active version is V,
	// whatever else is going wrong ----
	if mop.Kind == model.OpGetIfChanged && res.Class == model.NotChanged && allowed && (ctx.AuditFail || e.auditLatched) {
		if act := e.Model.Active(mop.Name); act != mop.Version || mop.Version == 0 {
			e.fail("result", "%s: answered not-modified for version %d while the active version is %d (the audit log was failing)", desc, mop.Version, act)
		}
	}

	// ---- after an audit failure without restart ----
	if e.auditLatched && !ctx.AuditFail {
		if res.Class == model.OK {
			e.auditLatched = false // the writer works again
		} else {
			if !unchanged {
				e.fail("audit-failclosed", "%s: failed call changed the database file while the audit writer was broken", desc)
			}
			return
		}
	}

	// ---- a request beyond a mebibyte may be turned away at the door (a size
	// limit is not excluded by any statement): 4xx, and nothing happened ----
	if hr != nil && mop.Kind == model.OpPut && len(mop.Value) > 1<<20 && res.Class == model.OtherError && hr.Status >= 400 && hr.Status < 500 && len(recs) == 0 {
		if !unchanged {
			e.fail("state", "%s: refused with status %d but the database file changed", desc, hr.Status)
		}
		if got, err := e.Observe(); err != nil || got != e.Model.DumpVisible() {
			e.fail("state", "%s: refused with status %d but the served state changed (%v)", desc, hr.Status, err)
		}
		e.S.Probe("large-request-refused")
		return
	}

	// ---- C06: audit expectations ----
	e.judgeAudit(ctx, mop, res, recs, allowed, desc)

	// ---- HTTP status mapping for accepted requests (C08) ----
	if hr != nil {
		want := map[model.Class]string{model.OK: "200", model.NotChanged: "304", model.AccessDenied: "403", model.NotFound: "404"}
		switch res.Class {
		case model.OtherError:
			if hr.Status < 400 || hr.Status == 403 || hr.Status == 404 {
				e.fail("http-status", "%s: failure reported with status %d", desc, hr.Status)
			}
		default:
			if fmt.Sprint(hr.Status) != want[res.Class] {
				e.fail("http-status", "%s: outcome %s reported with status %d", desc, res.Class, hr.Status)
			}
		}
	}

	// ---- fail-closed on audit failure ----
	if ctx.AuditFail {
		if !allowed && (res.Class == model.OK || res.Class == model.NotChanged || res.Class == model.NotFound && !illFormed || res.Value != nil || res.Info != nil) {
			e.fail("denied", "%s: the audit sink failed and a caller without a matching %q grant on %q got %s", desc, mop.Kind.Action(), mop.Name, res)
		}
		if res.Class == model.OK || res.Class == model.NotChanged {
			e.fail("audit-failclosed", "%s: audit record could not be written but the call returned %s", desc, res)
		}
		if res.Value != nil || res.Info != nil || res.List != nil {
			e.fail("audit-failclosed", "%s: audit record could not be written but the call returned data", desc)
		}
		if !unchanged {
			e.fail("audit-failclosed", "%s: audit record could not be written but the database file changed", desc)
		}
		// An audit writer may stay broken after a failed write (the JSON
		// encoder's error is sticky), in which case every later call fails
		// closed, the observer's included. Look at the running handle if it
		// still answers, then restart with a fresh audit writer and compare
		// the persisted state.
		if got, err := e.Observe(); err == nil && got != e.Model.DumpVisible() {
			e.fail("audit-failclosed", "%s: audit record could not be written but the served state changed:\n got: %s\nwant: %s", desc, got, e.Model.DumpVisible())
		}
		if e.T.Bool(1, 2) {
			// keep the process running: its audit writer may stay broken
			// (every later call then fails closed) or may recover - in which
			// case the log must still hold a whole line per disclosed value
			e.auditLatched = true
			e.S.Probe("audit-failure-no-restart")
			return
		}
		out := e.KEK.Outage
		e.KEK.Outage = false
		e.restartAs("audit-failclosed", desc+": after the failed audit write")
		e.KEK.Outage = out
		return
	}

	if !allowed {
		// ---- C01: denied ----
		bad := res.Class == model.OK || res.Class == model.NotChanged
		if !illFormed && res.Class != model.AccessDenied {
			bad = true
		}
		if bad {
			e.fail("denied", "%s: caller holds no %q grant matching %q (rules %v) but the call returned %s",
				desc, mop.Kind.Action(), mop.Name, rules, res)
		}
		if res.Value != nil || res.Info != nil || res.List != nil {
			e.fail("denied", "%s: denied call returned data", desc)
		}
		if !unchanged {
			e.fail("denied", "%s: denied call changed the database file", desc)
		}
		if got, err := e.Observe(); err != nil || got != e.Model.DumpVisible() {
			e.fail("denied", "%s: denied call changed state (%v)", desc, err)
		}
		if !illFormed && res.Class == model.AccessDenied && cor == nil && whoFault == 0 && !stalled {
			text := res.ErrText
			if hr != nil {
				text = fmt.Sprintf("%d %q", hr.Status, hr.Body)
			}
			if prev, ok := st.deniedText[mop.Kind]; ok && prev != text {
				e.fail("denied-identical", "%s: refusal %q differs from an earlier refusal %q of the same operation (existence must not show)", desc, text, prev)
			}
			st.deniedText[mop.Kind] = text
			e.S.Probe("denied")
		}
		return
	}

	// ---- the audit log was slow (not failing): a server may give up waiting
	// and fail the call - closed, i.e. nothing takes effect, not even later ----
	if stalled && res.Class == model.OtherError && !ctx.AuditFail {
		if !bytes.Equal(e.ReadFile(), ctx.PreFile) {
			e.fail("state", "%s: the call failed (%s) while the audit log was slow, but the database file changed (then or afterwards)", desc, res)
		}
		if got, err := e.Observe(); err != nil || got != e.Model.DumpVisible() {
			e.fail("state", "%s: the call failed (%s) while the audit log was slow, but it took effect (then or afterwards) (%v):\n got: %s\nwant: %s", desc, res, err, got, e.Model.DumpVisible())
		}
		e.S.Probe("failed-under-slow-audit")
		return
	}

	// ---- the disk was full: the call may fail, and then nothing changed ----
	if diskFull && res.Class == model.OtherError {
		if !unchanged {
			e.fail("state", "%s: the call failed (%s) with the disk full but the database file changed", desc, res)
		}
		if got, err := e.Observe(); err != nil || got != e.Model.DumpVisible() {
			e.fail("state", "%s: the call failed (%s) with the disk full but the served state changed (%v):\n got: %s\nwant: %s", desc, res, err, got, e.Model.DumpVisible())
		}
		e.S.Probe("failed-under-disk-full")
		return
	}

	// ---- allowed: exactly the model's answer ----
	exp := e.Model.Peek(mop)
	if mop.Kind == model.OpList {
		exp.OK.List = e.listFor(&Caller{Super: super, Rules: rules})
	}
	if res.Class == model.AccessDenied && !super && !exp.Classes.Has(model.AccessDenied) {
		// spurious denial of a granted call: not a safety violation of C01
		// by itself; list exactness is where the statement demands it.
		e.S.Probe("spurious-denial")
		e.fail("spurious-denial", "%s: caller holds a matching grant (rules %v) but was denied", desc, rules)
		if !unchanged {
			e.fail("denied", "%s: denied call changed the database file", desc)
		}
		return
	}
	if !exp.Classes.Has(res.Class) {
		e.fail("result", "%s: returned %s, model admits %s", desc, res, exp.Classes)
		return
	}
	if res.Class == model.OK {
		kind := "result"
		if mop.Kind == model.OpList {
			kind = "list"
		}
		if !model.EqualRes(res, exp.OK) {
			e.fail(kind, "%s: returned %s, model says %s", desc, res, exp.OK)
			return
		}
		if mop.Kind.Mutating() {
			e.Model.Apply(mop)
			e.S.Probe("mutation")
		}
		if mop.Kind == model.OpList {
			for _, i := range res.List {
				_ = i
			}
		}
	} else {
		if !unchanged {
			e.fail("state", "%s: failed call (%s) changed the database file", desc, res)
		}
		if res.Class == model.NotChanged {
			e.S.Probe("not-changed")
		}
	}
	if !mop.Kind.Mutating() && !unchanged {
		e.fail("state", "%s: read-only call changed the database file", desc)
	}
	// full observable state
	got, err := e.Observe()
	if err != nil {
		e.fail("state", "%s: afterwards %v", desc, err)
	} else if want := e.Model.DumpVisible(); got != want {
		e.fail("state", "%s: observable state differs from the model:\n got: %s\nwant: %s", desc, got, want)
	}
	if e.Prof.Scan && !unchanged {
		e.scanFiles(desc)
	}
	if e.KEK.Outage && res.Class == model.OK && mop.Kind.Mutating() {
		e.S.Probe("write-during-kek-outage")
	}
}

type auditLine struct {
	ID        *uint64 `json:"id"`
	Time      *string `json:"time"`
	Principal struct {
		Hostname string   `json:"hostname"`
		IP       string   `json:"ip"`
		User     string   `json:"user"`
		Tags     []string `json:"tags"`
	} `json:"principal"`
	Action        string `json:"action"`
	Authorized    *bool  `json:"authorized"`
	Secret        string `json:"secret"`
	SecretVersion uint32 `json:"secretVersion"`
}

func (e *Env) judgeAudit(ctx *OpCtx, mop model.Op, res model.Res, recs []AuditRec, allowed bool, desc string) {
	if !e.Prof.Oracles["audit"] {
		return
	}
	c := ctx.Caller
	// every record is a complete JSON line
	var lines []auditLine
	for _, r := range recs {
		if len(r.Data) == 0 || r.Data[len(r.Data)-1] != '\n' || bytes.Count(r.Data, []byte("\n")) != 1 {
			e.fail("audit", "%s: audit write is not exactly one line: %q", desc, r.Data)
			return
		}
		if r.Torn {
			e.fail("audit", "%s: the audit record was appended to a torn earlier record, so the log holds no complete line for this call: %q", desc, r.Data)
			return
		}
		var l auditLine
		if err := json.Unmarshal(r.Data, &l); err != nil {
			e.fail("audit", "%s: audit line does not parse: %v: %q", desc, err, r.Data)
			return
		}
		// synced before a value is returned, an effect takes place or a
		// refusal for lack of permission is pronounced; a call that failed
		// for another reason (a server that gave up on a slow log, say)
		// promises nothing about its record
		e.Sink.mu.Lock()
		slow := e.Sink.Stalled
		e.Sink.mu.Unlock()
		if !ctx.AuditFail && !r.Synced && (res.Class == model.OK || res.Class == model.AccessDenied && !slow) {
			e.fail("audit", "%s: audit record was not synced before the call returned: %s", desc, r.Data)
		}
		if m := e.containsMarker(r.Data); m != nil {
			e.fail("audit", "%s: audit record contains secret bytes", desc)
		}
		lines = append(lines, l)
	}
	if ctx.AuditFail {
		return
	}
	matches := func(l auditLine, action, secret string, version uint32, auth bool) bool {
		p := c.principal()
		if l.Principal.Hostname != p.Hostname || l.Principal.IP != p.IP.String() || l.Principal.User != p.User ||
			strings.Join(l.Principal.Tags, ",") != strings.Join(p.Tags, ",") {
			return false
		}
		return l.Action == action && l.Secret == secret && l.SecretVersion == version &&
			l.Authorized != nil && *l.Authorized == auth && l.ID != nil && l.Time != nil
	}
	need := func(action, secret string, version uint32, auth bool) {
		for _, l := range lines {
			if matches(l, action, secret, version, auth) {
				return
			}
		}
		var got []string
		for _, r := range recs {
			got = append(got, string(r.Data))
		}
		e.fail("audit", "%s -> %s: no audit record {principal=%s action=%s secret=%q version=%d authorized=%v} was written before the call returned; records: %q",
			desc, res, c.Node, action, secret, version, auth, got)
	}
	if allowed && res.Class != model.OK && mop.Kind != model.OpGetIfChanged {
		// A granted call that failed (no value returned, nothing took
		// effect) needs no record by the statement: it may have been turned
		// away before the store (a size limit, say) or after it.
		e.S.Probe("audit-not-required")
		return
	}
	switch mop.Kind {
	case model.OpList:
		need("info", "", 0, true)
	case model.OpGetIfChanged:
		switch {
		case !allowed:
			need("get", mop.Name, 0, false)
		case res.Class == model.OK:
			need("get", mop.Name, 0, true)
		case res.Class == model.NotChanged:
			if len(recs) != 0 {
				e.fail("audit-quiet", "%s: unchanged conditional get wrote an audit record: %s", desc, recs[0].Data)
			}
		}
	case model.OpPut, model.OpActivate:
		if mop.Name == "" {
			return
		}
		fallthrough
	default:
		v := uint32(0)
		switch mop.Kind {
		case model.OpGetVersion, model.OpActivate, model.OpDeleteVersion:
			v = mop.Version
		}
		need(mop.Kind.Action(), mop.Name, v, allowed)
	}
	e.S.Probe("audit-checked")
}

// ---- C05: marker scan over every file of the state directory ----

func encodings(m []byte) [][]byte {
	var out [][]byte
	out = append(out, m)
	out = append(out, []byte(hex.EncodeToString(m)))
	out = append(out, []byte(strings.ToUpper(hex.EncodeToString(m))))
	for pad := 0; pad < 3; pad++ {
		// base64 of the marker at each of the three alignments: drop the
		// characters influenced by neighbouring bytes
		buf := append(bytes.Repeat([]byte{'x'}, pad), m...)
		buf = append(buf, 'y', 'y', 'y')
		for _, enc := range []*base64.Encoding{base64.StdEncoding, base64.URLEncoding} {
			s := enc.EncodeToString(buf)
			start := (pad*8 + 5) / 6
			end := ((pad + len(m)) * 8) / 6
			if end-start >= 12 {
				out = append(out, []byte(s[start:end]))
			}
		}
	}
	js, _ := json.Marshal(string(m))
	if len(js) > 2 {
		out = append(out, js[1:len(js)-1])
	}
	return out
}

func (e *Env) scanFiles(when string) {
	if e.laxIno != 0 {
		var st syscall.Stat_t
		if syscall.Stat(e.Path, &st) != nil || st.Ino != e.laxIno {
			e.laxIno = 0 // the operator's file is gone
		}
	}
	ents, _ := os.ReadDir(e.Dir)
	for _, ent := range ents {
		p := filepath.Join(e.Dir, ent.Name())
		b, err := os.ReadFile(p)
		if err != nil {
			continue
		}
		fi, _ := os.Stat(p)
		var st syscall.Stat_t
		syscall.Stat(p, &st)
		if fi != nil && fi.Mode().Perm()&0o077 != 0 && !(e.laxIno != 0 && st.Ino == e.laxIno) {
			e.fail("mode", "%s: file %s has mode %v (must be owner-only)", when, ent.Name(), fi.Mode().Perm())
		}
		for _, m := range e.markers {
			for _, enc := range encodings(m) {
				if bytes.Contains(b, enc) {
					e.fail("plaintext", "%s: file %s contains secret value marker %q in form %q", when, ent.Name(), m, enc)
					return
				}
			}
		}
		for _, nm := range e.Model.Names() {
			if len(nm) < 5 {
				continue
			}
			for _, enc := range encodings([]byte(nm)) {
				if bytes.Contains(b, enc) {
					e.fail("plaintext", "%s: file %s contains secret name %q in form %q", when, ent.Name(), nm, enc)
					return
				}
			}
		}
		e.S.Probe("scanned-file")
	}
}
