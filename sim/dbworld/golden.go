package dbworld

import (
	"bytes"
	"encoding/json"
	"fmt"
	"os"
	"path/filepath"
	"sort"

	"github.com/tailscale/setec/audit"
	"github.com/tailscale/setec/db"
	"github.com/tink-crypto/tink-go/v2/aead"
	"github.com/tink-crypto/tink-go/v2/insecurecleartextkeyset"
	"github.com/tink-crypto/tink-go/v2/keyset"

	"verifsim/kernel"
	"verifsim/model"
)

// goldenExpect is the recorded contents of a golden file.
type goldenExpect struct {
	Secrets map[string]struct {
		Versions map[uint32][]byte
		Active   uint32
		Latest   uint32
	}
}

// FixtureDir is where the committed golden files live.
func FixtureDir() string {
	if d := os.Getenv("VERIF_FIXTURES"); d != "" {
		return d
	}
	return "/verif/fixtures"
}

func loadKeyset(path string) (*KEK, error) {
	b, err := os.ReadFile(path)
	if err != nil {
		return nil, err
	}
	h, err := insecurecleartextkeyset.Read(keyset.NewJSONReader(bytes.NewReader(b)))
	if err != nil {
		return nil, err
	}
	a, err := aead.New(h)
	if err != nil {
		return nil, err
	}
	return &KEK{inner: a}, nil
}

// pickGolden installs a golden schema-v1 file as the initial database and
// loads its expected contents into the model. Returns the fixture name.
func pickGolden(e *Env) string {
	files, _ := filepath.Glob(filepath.Join(FixtureDir(), "v1-*.db"))
	sort.Strings(files)
	if len(files) == 0 {
		return ""
	}
	f := files[e.T.Choice(len(files))]
	base := f[:len(f)-3]
	kek, err := loadKeyset(base + ".key.json")
	if err != nil {
		e.S.Fail(e.Prof.Prop+".harness", "golden keyset: "+err.Error())
		return ""
	}
	var exp goldenExpect
	b, err := os.ReadFile(base + ".expect.json")
	if err == nil {
		err = json.Unmarshal(b, &exp)
	}
	if err != nil {
		e.S.Fail(e.Prof.Prop+".harness", "golden expectation: "+err.Error())
		return ""
	}
	data, _ := os.ReadFile(f)
	if err := os.WriteFile(e.Path, data, 0o600); err != nil {
		e.S.Fail(e.Prof.Prop+".harness", err.Error())
		return ""
	}
	e.KEK = kek
	e.Model = model.NewDB()
	var names []string
	for n := range exp.Secrets {
		names = append(names, n)
	}
	sort.Strings(names)
	for _, n := range names {
		s := exp.Secrets[n]
		e.Model.Load(n, s.Versions, s.Active, s.Latest)
	}
	// work on the golden file's own names too
	e.Names = append(e.Names, names...)
	if len(e.Names) > 6 {
		e.Names = e.Names[len(e.Names)-6:]
	}
	e.S.Probe("golden")
	return filepath.Base(f)
}

// GenGolden writes one golden fixture (database, cleartext keyset, expected
// contents) into dir using the tree the harness was built from.
func GenGolden(dir string, idx int) error {
	tmpl := aead.AES256GCMKeyTemplate()
	if idx%2 == 1 {
		tmpl = aead.XChaCha20Poly1305KeyTemplate()
	}
	h, err := keyset.NewHandle(tmpl)
	if err != nil {
		return err
	}
	a, err := aead.New(h)
	if err != nil {
		return err
	}
	base := filepath.Join(dir, fmt.Sprintf("v1-%d", idx))
	var kb bytes.Buffer
	if err := insecurecleartextkeyset.Write(h, keyset.NewJSONWriter(&kb)); err != nil {
		return err
	}
	os.Remove(base + ".db")
	d, err := db.Open(base+".db", a, audit.New(discard{}))
	if err != nil {
		return err
	}
	m := model.NewDB()
	t := kernel.NewTape(uint64(1000 + idx))
	sup := db.Caller{Permissions: toACL([]model.Rule{{Actions: allActions, Patterns: []string{"*"}}})}
	names := []string{"alpha", "dev/beta", "a\nb", "é/ü", "x y", "prod/gamma"}
	vals := [][]byte{[]byte("hello"), {}, {0, 1, 2, 255}, []byte("line\nline\n"), {0xff, 0xfe}, bytes.Repeat([]byte("k"), 3000)}
	do := func(op model.Op) {
		exp := m.Peek(op)
		var err error
		switch op.Kind {
		case model.OpPut:
			_, err = d.Put(sup, op.Name, op.Value)
		case model.OpActivate:
			err = d.Activate(sup, op.Name, apiV(op.Version))
		case model.OpDeleteVersion:
			err = d.DeleteVersion(sup, op.Name, apiV(op.Version))
		case model.OpDelete:
			err = d.Delete(sup, op.Name)
		}
		if err == nil && exp.Classes.Has(model.OK) {
			m.Apply(op)
		}
	}
	for i := 0; i < 40+10*idx; i++ {
		n := names[t.Choice(len(names))]
		switch t.Weighted([]int{6, 3, 3, 1}) {
		case 0:
			v := append([]byte{}, vals[t.Choice(len(vals))]...)
			if t.Bool(1, 2) {
				v = append(v, byte('a'+i%26))
			}
			do(model.Op{Kind: model.OpPut, Name: n, Value: v})
		case 1:
			do(model.Op{Kind: model.OpActivate, Name: n, Version: uint32(t.Range(1, int(m.Latest(n))+1))})
		case 2:
			// prefer deleting the newest version: the next-version counter
			// then exceeds every stored version
			v := m.Latest(n)
			if t.Bool(1, 2) {
				v = uint32(t.Range(1, int(m.Latest(n))+1))
			}
			do(model.Op{Kind: model.OpDeleteVersion, Name: n, Version: v})
		case 3:
			do(model.Op{Kind: model.OpDelete, Name: n})
		}
	}
	var exp goldenExpect
	exp.Secrets = map[string]struct {
		Versions map[uint32][]byte
		Active   uint32
		Latest   uint32
	}{}
	for _, n := range m.Names() {
		vs := map[uint32][]byte{}
		for _, v := range m.Versions(n) {
			b, _ := m.VersionBytes(n, v)
			vs[v] = b
		}
		exp.Secrets[n] = struct {
			Versions map[uint32][]byte
			Active   uint32
			Latest   uint32
		}{vs, m.Active(n), m.Latest(n)}
	}
	eb, _ := json.MarshalIndent(exp, "", " ")
	if err := os.WriteFile(base+".key.json", kb.Bytes(), 0o644); err != nil {
		return err
	}
	return os.WriteFile(base+".expect.json", eb, 0o644)
}

type discard struct{}

func (discard) Write(p []byte) (int, error) { return len(p), nil }
