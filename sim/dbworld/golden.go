package dbworld

// pickGolden installs a golden schema-v1 file as the initial database and
// loads its expected contents into the model. Returns the fixture name.
var pickGolden = func(e *Env) string { return "" }
