package dbworld

import (
	"bytes"
	"encoding/json"

	"verifsim/model"
)

func sp(s string) *string { return &s }

// genCorruption draws a request corruption and classifies it independently
// of the server: ill-formed (the statement's own list), well-formed, or
// unspecified (may be accepted or refused).
func (e *Env) genCorruption(op model.Op) *Corruption {
	t := e.T
	switch t.Choice(19) {
	case 16:
		// the whole request arrives, then the connection breaks
		return &Corruption{Kind: "body-then-reset", Class: "unspecified", BodyErr: true}
	case 17:
		// part of the request arrives, then the connection breaks
		cut := t.Choice(64)
		return &Corruption{Kind: "body-cut-then-reset", Class: "ill-formed", BodyErr: true, Body: func(b []byte) []byte {
			if len(b) == 0 {
				return b
			}
			return b[:cut%len(b)]
		}}
	case 18:
		// someone else's complete request, padded beyond any sane size limit
		// or cut off by a broken connection
		nm := e.Names[t.Choice(len(e.Names))]
		pj, _ := json.Marshal(map[string]any{"Name": nm, "Value": []byte("planted"), "Version": 1})
		planted := string(pj)
		big := t.Bool(1, 4)
		// what the request means if the server takes it
		eff := model.Op{Kind: op.Kind, Name: nm}
		switch op.Kind {
		case model.OpList:
			eff.Name = ""
		case model.OpGet, model.OpGetVersion, model.OpGetIfChanged:
			eff.Kind, eff.Version = model.OpGetVersion, 1
		case model.OpActivate, model.OpDeleteVersion:
			eff.Version = 1
		case model.OpPut:
			eff.Value = []byte("planted")
		}
		return &Corruption{Kind: "body-foreign", Class: "unspecified", Eff: &eff, BodyErr: !big, Body: func([]byte) []byte {
			if big {
				return append([]byte(planted), bytes.Repeat([]byte{' '}, 5<<20)...)
			}
			return []byte(planted)
		}}
	case 0:
		m := []string{"GET", "PUT", "DELETE", "HEAD", "PATCH", "OPTIONS"}[t.Choice(6)]
		return &Corruption{Kind: "method-" + m, Class: "ill-formed", Method: m}
	case 1:
		return &Corruption{Kind: "ct-missing", Class: "ill-formed", CT: sp("")}
	case 2:
		v := []string{"text/plain", "application/x-www-form-urlencoded", "application/xml", "json"}[t.Choice(4)]
		return &Corruption{Kind: "ct-" + v, Class: "ill-formed", CT: sp(v)}
	case 3:
		return &Corruption{Kind: "nobrowsers-missing", Class: "ill-formed", NB: sp(""), Extra: e.browserHeaders()}
	case 4:
		v := []string{"1", "true", "Setec", "setec2", "no"}[t.Choice(5)]
		return &Corruption{Kind: "nobrowsers-" + v, Class: "ill-formed", NB: sp(v), Extra: e.browserHeaders()}
	case 5:
		cut := t.Choice(64)
		return &Corruption{Kind: "body-truncated", Class: "ill-formed", Body: func(b []byte) []byte {
			if len(b) == 0 {
				return b
			}
			return b[:cut%len(b)]
		}}
	case 6:
		v := []string{"hello", "\xff\xfe", "", "{", "{\"Name\":", "<xml/>"}[t.Choice(6)]
		return &Corruption{Kind: "body-nonjson", Class: "ill-formed", Body: func([]byte) []byte { return []byte(v) }}
	case 7:
		// a wrongly typed field
		if op.Kind == model.OpList {
			v := []string{"17", "[]", "\"x\"", "true"}[t.Choice(4)]
			return &Corruption{Kind: "body-wrongtype", Class: "ill-formed", Body: func([]byte) []byte { return []byte(v) }}
		}
		v := []string{`{"Name": 17}`, `{"Name": ["a"]}`, `{"Name": {"a": 1}}`, `[1,2]`, `"str"`, `17`}[t.Choice(6)]
		return &Corruption{Kind: "body-wrongtype", Class: "ill-formed", Body: func([]byte) []byte { return []byte(v) }}
	case 8:
		return &Corruption{Kind: "unknown-endpoint", Class: "ill-formed", Path: "/api/nosuch"}
	case 9:
		return &Corruption{Kind: "extra-fields", Class: "well-formed", Body: func(b []byte) []byte {
			var m map[string]any
			if json.Unmarshal(b, &m) != nil || m == nil {
				return b
			}
			m["Extra"] = 1
			m["another"] = map[string]any{"x": []int{1}}
			nb, _ := json.Marshal(m)
			return nb
		}}
	case 10:
		return &Corruption{Kind: "ct-charset", Class: "unspecified", CT: sp("application/json; charset=utf-8")}
	case 11:
		return &Corruption{Kind: "method-lowercase", Class: "unspecified", Method: "post"}
	case 12:
		return &Corruption{Kind: "trailing-bytes", Class: "unspecified", Body: func(b []byte) []byte {
			return append(append([]byte{}, b...), []byte(" trailing garbage")...)
		}}
	case 13:
		return &Corruption{Kind: "field-case", Class: "unspecified", Body: func(b []byte) []byte {
			b = bytes.Replace(b, []byte(`"Name"`), []byte(`"name"`), 1)
			return bytes.Replace(b, []byte(`"Version"`), []byte(`"VERSION"`), 1)
		}}
	case 14:
		return &Corruption{Kind: "whitespace", Class: "well-formed", Body: func(b []byte) []byte {
			return append([]byte(" \n\t"), append(b, '\n', ' ')...)
		}}
	default:
		v := []string{"null", "{}"}[t.Choice(2)]
		// docs/api.md: null / {} are accepted where all fields are optional;
		// they then mean the zero request (empty name).
		return &Corruption{Kind: "body-" + v, Class: "zero-request", Body: func([]byte) []byte { return []byte(v) }}
	}
}

// browserHeaders: what a browser (or something posing as a well-behaved
// one) sends along; none of it replaces the required header.
func (e *Env) browserHeaders() map[string]string {
	t := e.T
	if t.Bool(1, 3) {
		return nil
	}
	all := [][2]string{
		{"Sec-Fetch-Site", []string{"same-origin", "same-site", "none", "cross-site"}[t.Choice(4)]},
		{"Sec-Fetch-Mode", []string{"cors", "same-origin", "navigate", "no-cors"}[t.Choice(4)]},
		{"Sec-Fetch-Dest", "empty"},
		{"Origin", []string{"http://setec.sim", "https://setec.sim", "null"}[t.Choice(3)]},
		{"Referer", "http://setec.sim/"},
		{"X-Requested-With", "XMLHttpRequest"},
		{"Cookie", "session=1"},
		{"Authorization", "Bearer setec"},
		{"X-Tailscale-No-Browsers", "setec"},
		{"Sec-X-Tailscale-No-Browser", "setec"},
		{"User-Agent", "setec-client/1.0"},
	}
	out := map[string]string{}
	for _, kv := range all {
		if t.Bool(1, 3) {
			out[kv[0]] = kv[1]
		}
	}
	return out
}
