package dbworld

import (
	"bytes"
	"fmt"
	"strings"
	"unicode/utf8"

	"verifsim/model"
)

// Name and pattern catalogues: valid UTF-8 only (the domain reachable
// through the JSON API and the policy file).
var namePool = []string{
	"a", "b", "dev/x", "dev/y", "prod/x", "a\nb", "a.b", "aXb", "a+b", "(a)", "[a]", "a*b",
	"dev/x/deep", "é/ü", "x y", "dev/", "/", "a\\b", "a$", "^a", "a|b", "a?", "{a}", "\n",
	// the same letters in another case or another Unicode normal form, a
	// trailing blank, an embedded NUL: all different names
	"A", "Dev/x", "e\u0301/u\u0308", "a ", "a\x00b", "dev/x\x00",
}

var oddNames = []string{"", "_internal/cfg", "_internal/", "_internal"}

var patternPool = []string{
	"*", "dev/*", "*/x", "a*b", "*a*", "a", "b", "dev/x", "prod/x", "nomatch", "", "**",
	"dev/*x*", ".*", "a.b", "a+b", "[a]", "(a)", "a\n*", "*\n*", "a*", "*b", "dev/x*", "d*v/*",
	"é/*", "x y", "_internal/*", "a\\b", "a$", "^a", "a|b", "a?", "{a}", ".", "\\*", "a\nb",
	"A", "DEV/*", "Dev/*", "e\u0301/*", "a *", "a\x00*", "*\x00",
}

// value classes
const (
	valUnique = iota
	valEmpty
	valOneByte
	valBinary
	valBadUTF8
	valNewlines
	valLarge
	valRepeatLatest
	valRepeatOld
	valRelated // the newest value grown or cut by a round number of bytes
	valHuge    // beyond a mebibyte (only in runs that draw it)
)

// NewValue draws a value for a put on name.
func (e *Env) NewValue(name string, w []int) []byte {
	if w == nil {
		w = []int{10, 2, 1, 2, 1, 1, 1, 4, 2, 2, 0}
		if e.hugeRun {
			w[valHuge] = 1
		}
	}
	k := e.T.Weighted(w)
	e.valCtr++
	mark := []byte(fmt.Sprintf("MK%s%04d", e.nonce, e.valCtr))
	add := func(b []byte) []byte {
		e.markers = append(e.markers, mark)
		return append(mark, b...)
	}
	switch k {
	case valEmpty:
		return []byte{}
	case valOneByte:
		return []byte{byte('0' + e.valCtr%10)}
	case valBinary:
		return add([]byte{0, 1, 2, 0, 255, 254, 0})
	case valBadUTF8:
		return add([]byte{0xff, 0xfe, 0xc0, 0x80, 'x'})
	case valNewlines:
		return add([]byte("line1\nline2\r\n\ttabbed \"quoted\" \\ back\n"))
	case valLarge:
		b := make([]byte, 64<<10)
		for i := range b {
			b[i] = byte(i*7 + e.valCtr)
		}
		return add(b)
	case valRepeatLatest:
		if b, ok := e.Model.VersionBytes(name, e.Model.Latest(name)); ok {
			return append([]byte{}, b...)
		}
		if e.Model.Has(name) {
			// the newest version was deleted: an empty value is the
			// interesting probe here
			if e.T.Bool(1, 2) {
				return []byte{}
			}
		}
	case valHuge:
		b := make([]byte, []int{786500, 1 << 20, 3<<20 + 17}[e.T.Choice(3)])
		for i := range b {
			b[i] = byte(i*13 + e.valCtr)
		}
		return add(b)
	case valRelated:
		// same bytes as the newest version up to a length difference of
		// 1, 255, 256, 257, 512 ... bytes (padding added or stripped, a block
		// appended, an empty placeholder filled in)
		if b, ok := e.Model.VersionBytes(name, e.Model.Latest(name)); ok {
			d := []int{1, 255, 256, 257, 512, 1024, 65536}[e.T.Choice(7)]
			if e.T.Bool(1, 3) && len(b) > d {
				return append([]byte{}, b[:len(b)-d]...)
			}
			pad := byte(e.T.Choice(2)) * byte('=')
			return append(append([]byte{}, b...), bytes.Repeat([]byte{pad}, d)...)
		}
	case valRepeatOld:
		vs := e.Model.Versions(name)
		if len(vs) > 0 {
			b, _ := e.Model.VersionBytes(name, vs[e.T.Choice(len(vs))])
			return append([]byte{}, b...)
		}
	}
	return add(nil)
}

// PickName draws a secret name: mostly from the run's pool, sometimes odd.
func (e *Env) PickName(odd bool) string {
	if odd && e.T.Bool(1, 12) {
		return oddNames[e.T.Choice(len(oddNames))]
	}
	return e.Names[e.T.Choice(len(e.Names))]
}

// PickVersion draws a version argument biased toward interesting ones.
func (e *Env) PickVersion(name string) uint32 {
	act, lat := e.Model.Active(name), e.Model.Latest(name)
	vs := e.Model.Versions(name)
	switch e.T.Weighted([]int{4, 3, 3, 1, 2, 1, 1}) {
	case 0:
		if len(vs) > 0 {
			return vs[e.T.Choice(len(vs))]
		}
		return 1
	case 1:
		return act
	case 2:
		return lat
	case 3:
		return 0
	case 4:
		return lat + 1
	case 5:
		// a deleted version if there is one
		for v := uint32(1); v <= lat; v++ {
			if _, ok := e.Model.VersionBytes(name, v); !ok {
				return v
			}
		}
		return lat + 2
	}
	return 4000000000
}

// GenOp draws one operation. w weights the op kinds (indexed by OpKind).
func (e *Env) GenOp(w []int, odd bool) model.Op {
	k := model.OpKind(e.T.Weighted(w))
	op := model.Op{Kind: k}
	if k == model.OpList {
		return op
	}
	op.Name = e.PickName(odd)
	switch k {
	case model.OpGetVersion, model.OpGetIfChanged, model.OpActivate, model.OpDeleteVersion:
		op.Version = e.PickVersion(op.Name)
	case model.OpPut:
		op.Value = e.NewValue(op.Name, nil)
	}
	return op
}

// DrawNames picks the run's name pool.
func (e *Env) DrawNames(n int) {
	seen := map[string]bool{}
	add := func(nm string) {
		if !seen[nm] && len(e.Names) < n {
			seen[nm] = true
			e.Names = append(e.Names, nm)
		}
	}
	// a bounded number of draws (a shrunk tape answers every draw with 0),
	// then the pool in order
	for i := 0; i < 4*n && len(e.Names) < n; i++ {
		add(namePool[e.T.Choice(len(namePool))])
	}
	for _, nm := range namePool {
		add(nm)
	}
	// Siblings: a name of the run with one character replaced by a nearby
	// code point (prefix patterns ending right there must not spill over).
	if e.T.Bool(1, 3) {
		for k, ns := 0, e.T.Range(1, 2); k < ns; k++ {
			r := []rune(e.Names[e.T.Choice(len(e.Names))])
			if len(r) == 0 {
				continue
			}
			i := e.T.Choice(len(r))
			d := []rune{1, -1, 0x10, 0x40, 0x100}[e.T.Choice(5)]
			if c := r[i] + d; c > 0x20 && c != '*' && c != 0xFFFD && utf8.ValidRune(c) && !(c >= 0xD800 && c <= 0xDFFF) {
				r[i] = c
				if sib := string(r); !seen[sib] && !strings.HasPrefix(sib, "_internal") {
					seen[sib] = true
					e.Names = append(e.Names, sib)
				}
			}
		}
	}
	// Names that path-clean to another name of the run: to the store they
	// are different secrets (names are opaque strings).
	if e.T.Bool(1, 3) {
		for k, na := 0, e.T.Range(1, 2); k < na; k++ {
			base := e.Names[e.T.Choice(len(e.Names))]
			var alias string
			switch e.T.Choice(6) {
			case 0:
				alias = "dev/../" + base
			case 1:
				alias = "./" + base
			case 2:
				alias = base + "/."
			case 3:
				alias = strings.Replace(base, "/", "//", 1)
			case 4:
				alias = base + "/../" + base
			default:
				alias = "/" + base
			}
			if !seen[alias] {
				seen[alias] = true
				e.Names = append(e.Names, alias)
			}
		}
	}
}

// DrawMarkerNames uses high-entropy names (C05: names must not show in files).
func (e *Env) DrawMarkerNames(n int) {
	for i := 0; i < n; i++ {
		e.Names = append(e.Names, fmt.Sprintf("NM%s%02d/secret", e.nonce, i))
	}
}
