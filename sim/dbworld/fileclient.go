package dbworld

import (
	"bytes"
	"context"
	"encoding/base64"
	"encoding/json"
	"errors"
	"os"
	"path/filepath"
	"unicode/utf8"

	"github.com/tailscale/setec/client/setec"
	"github.com/tailscale/setec/types/api"
)

// checkFileClient generates a static secrets file from the model (the
// documented format: base64 "Value" or plain "TextValue") and judges
// FileClient.Get / GetIfChanged against the model for every kind of V.
func (e *Env) checkFileClient() {
	doc := map[string]any{}
	type want struct {
		v uint32
		b []byte
	}
	wants := map[string]want{}
	for _, n := range e.Model.Names() {
		act := e.Model.Active(n)
		b, _ := e.Model.VersionBytes(n, act)
		if len(b) == 0 || n == "" {
			continue // the file client only carries non-empty secrets
		}
		sec := map[string]any{"Version": act}
		if utf8.Valid(b) && e.T.Bool(1, 3) {
			sec["TextValue"] = string(b)
		} else {
			sec["Value"] = base64.StdEncoding.EncodeToString(b)
		}
		doc[n] = map[string]any{"secret": sec}
		wants[n] = want{act, b}
	}
	// entries without a usable version are not secrets the file client can
	// serve with the conditional-get contract: either they are ignored
	// (not found) or, if served at all, V = 0 must still yield the value
	zeroNames := []string{"zero-version", "no-version"}
	doc["zero-version"] = map[string]any{"secret": map[string]any{"Value": base64.StdEncoding.EncodeToString([]byte("zv")), "Version": 0}}
	doc["no-version"] = map[string]any{"secret": map[string]any{"TextValue": "nv"}}
	data, _ := json.Marshal(doc)
	path := filepath.Join(e.Dir, "static-secrets.json")
	if err := os.WriteFile(path, data, 0o600); err != nil {
		return
	}
	defer os.Remove(path)
	fc, err := setec.NewFileClient(path)
	if err != nil {
		e.fail("fileclient", "NewFileClient on a well-formed file: %v", err)
		return
	}
	ctx := context.Background()
	for _, n := range zeroNames {
		sv, err := fc.GetIfChanged(ctx, n, 0)
		if errors.Is(err, api.ErrValueNotChanged) {
			e.fail("fileclient", "FileClient.GetIfChanged(%q, 0) answered not-changed: with V = 0 the flag is ignored and a value (or not-found) is due", n)
		} else if err != nil && !errors.Is(err, api.ErrNotFound) {
			e.fail("fileclient", "FileClient.GetIfChanged(%q, 0): %v", n, err)
		} else if err == nil && len(sv.Value) == 0 {
			e.fail("fileclient", "FileClient.GetIfChanged(%q, 0) returned an empty value", n)
		}
	}
	for _, n := range append(append([]string{}, e.Names...), "absent-name") {
		w, has := wants[n]
		sv, err := fc.Get(ctx, n)
		switch {
		case !has:
			if !errors.Is(err, api.ErrNotFound) {
				e.fail("fileclient", "FileClient.Get(%q) of an absent secret: %v, want ErrNotFound", n, err)
			}
		case err != nil || uint32(sv.Version) != w.v || !bytes.Equal(sv.Value, w.b):
			e.fail("fileclient", "FileClient.Get(%q) = %v, %v; want version %d", n, sv, err, w.v)
		}
		for _, V := range []uint32{w.v, w.v + 1, 0, 4000000000, 1} {
			sv, err := fc.GetIfChanged(ctx, n, api.SecretVersion(V))
			switch {
			case !has:
				if !errors.Is(err, api.ErrNotFound) {
					e.fail("fileclient", "FileClient.GetIfChanged(%q,%d) of an absent secret: %v, want ErrNotFound", n, V, err)
				}
			case V != 0 && V == w.v:
				if !errors.Is(err, api.ErrValueNotChanged) {
					e.fail("fileclient", "FileClient.GetIfChanged(%q,%d) with V equal to the file's version returned (%v, %v), want ErrValueNotChanged", n, V, sv, err)
				}
			default:
				if err != nil || uint32(sv.Version) != w.v || !bytes.Equal(sv.Value, w.b) {
					e.fail("fileclient", "FileClient.GetIfChanged(%q,%d) with the file at version %d returned (%v, %v), want the value", n, V, w.v, sv, err)
				}
			}
		}
		e.S.Probe("fileclient-checked")
	}
}
