// Package dbworld is engine E1: the real db, acl, audit, server and client
// code in one process, driven by seeded workloads against the map model.
package dbworld

import (
	"bytes"
	"context"
	"encoding/json"
	"errors"
	"fmt"
	"io"
	"io/fs"
	"net/http"
	"net/http/httptest"
	"net/netip"
	"os"
	"path/filepath"
	"regexp"
	"sort"
	"strings"
	"sync"
	"syscall"
	"time"

	"github.com/tailscale/setec/acl"
	"github.com/tailscale/setec/audit"
	"github.com/tailscale/setec/client/setec"
	"github.com/tailscale/setec/db"
	"github.com/tailscale/setec/server"
	"github.com/tailscale/setec/types/api"
	"github.com/tink-crypto/tink-go/v2/aead"
	"github.com/tink-crypto/tink-go/v2/insecurecleartextkeyset"
	tinkpb "github.com/tink-crypto/tink-go/v2/proto/tink_go_proto"
	"google.golang.org/protobuf/proto"
	"github.com/tink-crypto/tink-go/v2/keyset"
	"github.com/tink-crypto/tink-go/v2/tink"
	"tailscale.com/client/tailscale/apitype"
	"tailscale.com/tailcfg"

	"verifsim/kernel"
	"verifsim/model"
)

// ---- key-encryption key: a real tink AEAD inside a counting wrapper ----

// KEK wraps a real AEAD, counts calls and can be switched to an outage.
type KEK struct {
	inner  tink.AEAD
	h      *keyset.Handle // nil for keys loaded from a fixture
	Rotations int
	mu     sync.Mutex
	Calls  int
	Outage bool
	Denied int
}

func (k *KEK) Encrypt(pt, ad []byte) ([]byte, error) {
	k.mu.Lock()
	k.Calls++
	out := k.Outage
	if out {
		k.Denied++
	}
	in := k.inner
	k.mu.Unlock()
	if out {
		return nil, errors.New("sim: key service outage")
	}
	return in.Encrypt(pt, ad)
}

func (k *KEK) Decrypt(ct, ad []byte) ([]byte, error) {
	k.mu.Lock()
	k.Calls++
	out := k.Outage
	if out {
		k.Denied++
	}
	in := k.inner
	k.mu.Unlock()
	if out {
		return nil, errors.New("sim: key service outage")
	}
	return in.Decrypt(ct, ad)
}

func (k *KEK) Count() int { k.mu.Lock(); defer k.mu.Unlock(); return k.Calls }

// Rotate does what an operator's key rotation does: a fresh key is added to
// the keyset and made primary; the earlier keys stay enabled, so everything
// wrapped before still opens. The process-wide handle is cloned first.
func (k *KEK) Rotate() bool {
	if k.h == nil {
		return false
	}
	ks := proto.Clone(insecurecleartextkeyset.KeysetMaterial(k.h)).(*tinkpb.Keyset)
	h, err := insecurecleartextkeyset.Read(&keyset.MemReaderWriter{Keyset: ks})
	if err != nil {
		panic(err)
	}
	mgr := keyset.NewManagerFromHandle(h)
	tmpl := aead.AES256GCMKeyTemplate()
	if k.Rotations%2 == 1 {
		tmpl = aead.XChaCha20Poly1305KeyTemplate()
	}
	id, err := mgr.Add(tmpl)
	if err != nil {
		panic(err)
	}
	if err := mgr.SetPrimary(id); err != nil {
		panic(err)
	}
	h2, err := mgr.Handle()
	if err != nil {
		panic(err)
	}
	a, err := aead.New(h2)
	if err != nil {
		panic(err)
	}
	k.mu.Lock()
	k.h, k.inner = h2, a
	k.Rotations++
	k.mu.Unlock()
	return true
}

var (
	kekOnce    sync.Once
	kekPool    []tink.AEAD
	kekHandles []*keyset.Handle
)

// NewKEK returns a wrapper around the i-th process-wide real AEAD (AES-GCM,
// XChaCha20-Poly1305 alternating). Keys are created once per process: their
// bytes never enter a log or oracle except by equality.
func NewKEK(i int) *KEK {
	kekOnce.Do(func() {
		for j := 0; j < 4; j++ {
			tmpl := aead.AES256GCMKeyTemplate()
			if j%2 == 1 {
				tmpl = aead.XChaCha20Poly1305KeyTemplate()
			}
			h, err := keyset.NewHandle(tmpl)
			if err != nil {
				panic(err)
			}
			a, err := aead.New(h)
			if err != nil {
				panic(err)
			}
			kekPool = append(kekPool, a)
			kekHandles = append(kekHandles, h)
		}
	})
	return &KEK{inner: kekPool[i%len(kekPool)], h: kekHandles[i%len(kekPool)]}
}

// ---- audit sink ----

// AuditRec is one Write received by the sink.
type AuditRec struct {
	Data     []byte
	Synced   bool
	Torn     bool // appended to a torn fragment: not a line of its own in the log
	OpSeq    int  // sequence number of the client op during which it arrived (0: none)
	Observer bool
}

// Sink is the audit sink: records, can fail at a chosen record, parks.
type Sink struct {
	e  *Env
	mu sync.Mutex
	// Recs holds every Write of non-observer calls.
	Recs []AuditRec
	// fault plan: fail the k-th (0-based) non-observer write from now
	FailAt   int // -1: never
	FailKind int // 0 write error, 1 short write, 2 sync error, 3 slow sync, 4 slow write (no error: the call just takes StallD)
	StallD   time.Duration
	n        int
	failSync bool
	slowSync time.Duration
	Stalled  bool // a slow write or sync happened since the flag was last cleared
	Stream   []byte            // every byte the sink accepted, torn fragments included (an append-only file)
	OnWrite  func(data []byte) // called before recording (order oracle)
	OnSync   func()
}

// faultErr is the error an injected audit failure reports. What a failing log
// says varies in practice (an errno inside a PathError, a closed file, a
// deadline, an EOF from a pipe); none of it may be mistaken for success. The
// choice is a pure function of the run's seed and the record index.
func (k *Sink) faultErr(op string, idx int) error {
	switch kernel.Hash64(k.e.S.T.Seed, "audit-err-"+op, uint64(idx)) % 9 {
	case 0:
		return &fs.PathError{Op: op, Path: "audit.log", Err: syscall.EIO}
	case 1:
		return &fs.PathError{Op: op, Path: "audit.log", Err: syscall.ENOSPC}
	case 2:
		return &fs.PathError{Op: op, Path: "audit.log", Err: os.ErrClosed}
	case 3:
		return io.ErrClosedPipe
	case 4:
		return os.ErrDeadlineExceeded
	case 5:
		return io.EOF
	case 6:
		return &fs.PathError{Op: op, Path: "audit.log", Err: syscall.EINTR}
	case 7:
		return context.Canceled
	}
	return errors.New("sim: audit " + op + " error")
}

func (k *Sink) Write(p []byte) (int, error) {
	e := k.e
	if e.observing {
		return len(p), nil
	}
	if e.parkAudit {
		e.S.Park("audit", "sink.Write", nil, nil, nil)
	}
	k.mu.Lock()
	idx := k.n
	k.n++
	fail := k.FailAt >= 0 && idx == k.FailAt
	kind := k.FailKind
	k.mu.Unlock()
	if k.OnWrite != nil {
		k.OnWrite(p)
	}
	if fail && kind == 4 {
		e.S.Fault("audit-slow-write")
		k.mu.Lock()
		k.Stalled = true
		k.mu.Unlock()
		time.Sleep(k.StallD)
	}
	if fail && kind == 0 {
		e.S.Fault("audit-write-error")
		e.auditFailed(nil)
		return 0, k.faultErr("write", idx)
	}
	if fail && kind == 1 {
		e.S.Fault("audit-short-write")
		n := len(p) / 2
		e.auditFailed(p[:n])
		k.mu.Lock()
		k.Stream = append(k.Stream, p[:n]...)
		k.mu.Unlock()
		return n, io.ErrShortWrite
	}
	rec := AuditRec{Data: append([]byte{}, p...), OpSeq: e.curOpSeq()}
	k.mu.Lock()
	// the record lands right after whatever the stream already holds: after a
	// torn fragment it does not start a line of its own
	if n := len(k.Stream); n > 0 && k.Stream[n-1] != '\n' {
		rec.Torn = true
	}
	k.Stream = append(k.Stream, p...)
	k.Recs = append(k.Recs, rec)
	if fail && kind == 2 {
		k.failSync = true
	}
	if fail && kind == 3 {
		k.slowSync = k.StallD
	}
	k.mu.Unlock()
	return len(p), nil
}

func (k *Sink) Sync() error {
	e := k.e
	if e.observing {
		return nil
	}
	// a sync makes durable what had been written when it began; records that
	// arrive while it is in flight are not covered by it
	k.mu.Lock()
	covered := len(k.Recs)
	k.mu.Unlock()
	if e.parkAudit {
		e.S.Park("audit", "sink.Sync", nil, nil, nil)
	}
	k.mu.Lock()
	slow := k.slowSync
	k.slowSync = 0
	k.mu.Unlock()
	if slow > 0 {
		// the volume is slow, not broken: the flush takes its time and succeeds
		e.S.Fault("audit-slow-sync")
		k.mu.Lock()
		k.Stalled = true
		k.mu.Unlock()
		time.Sleep(slow)
	}
	k.mu.Lock()
	fs := k.failSync
	k.failSync = false
	if !fs {
		for i := 0; i < covered && i < len(k.Recs); i++ {
			k.Recs[i].Synced = true
		}
	}
	k.mu.Unlock()
	if k.OnSync != nil {
		k.OnSync()
	}
	if fs {
		e.S.Fault("audit-sync-error")
		e.auditFailed(nil)
		return k.faultErr("sync", covered)
	}
	return nil
}

// ---- callers ----

// Caller is a simulated tailnet peer.
type Caller struct {
	ID    int
	Addr  string // ip:port as seen by the server
	Rules []model.Rule
	Super bool
	Node  string
	User  string
	Tags  []string
	// WhoIs behaviour for HTTP runs
	LegacyCap bool // grants under the https:// capability name
	// Headers are added to every request this caller sends
	Headers map[string]string
	dbc     db.Caller
}

func (c *Caller) principal() audit.Principal {
	ap, _ := netip.ParseAddrPort(c.Addr)
	return audit.Principal{Hostname: c.Node, IP: ap.Addr(), User: c.User, Tags: c.Tags}
}

func toACL(rules []model.Rule) acl.Rules {
	var out acl.Rules
	for _, r := range rules {
		var rr acl.Rule
		for _, a := range r.Actions {
			rr.Action = append(rr.Action, acl.Action(a))
		}
		for _, p := range r.Patterns {
			rr.Secret = append(rr.Secret, acl.Secret(p))
		}
		out = append(out, rr)
	}
	return out
}

// derivedPatterns builds patterns that sit right next to the run's names:
// prefix*suffix where prefix and suffix overlap in the name (must NOT match),
// where they tile it exactly, and near misses by one character.
func (e *Env) derivedPatterns() []string {
	var out []string
	for _, nm := range e.Names {
		r := []rune(nm) // cut at rune boundaries: patterns stay valid UTF-8
		if len(r) == 0 || len(r) > 12 || strings.Contains(nm, "*") {
			continue
		}
		i := e.T.Choice(len(r) + 1) // prefix r[:i]
		j := e.T.Choice(len(r) + 1) // suffix r[j:]
		pre, suf := string(r[:i]), string(r[j:])
		out = append(out, pre+"*"+suf)
		out = append(out, nm+"*"+nm, pre+"*"+string(r[i:]), pre+"*"+pre+"*")
		if len(r) > 1 {
			last := string(r[len(r)-1:])
			out = append(out, string(r[:len(r)-1]), string(r[1:]), string(r[:len(r)-1])+"*"+last+last)
		}
	}
	return out
}

var tmpSuffix = regexp.MustCompile(`\.tmp\d+`)

var allActions = []string{"get", "info", "put", "activate", "delete"}

// ---- environment ----

// Env is one run's system under test plus model.
type Env struct {
	S    *kernel.Sim
	T    *kernel.Tape
	Prof *Profile

	Dir, Path string
	KEK       *KEK
	Sink      *Sink
	DB        *db.DB
	Mux       *http.ServeMux
	Model     *model.DB
	Callers   []*Caller
	Super     *Caller
	Observer  db.Caller
	Names     []string
	HTTP      bool

	observing    bool
	auditLatched bool   // an audit write failed and the process was not restarted
	diskFaultRun bool   // this run injects disk-full calls
	nLinks       int
	stallSeen    bool // a slow audit write or sync happened in this run
	hugeRun      bool // values beyond a mebibyte occur in this run
	laxIno       uint64 // inode of the database file an operator gave a lax mode (0: none)
	parkAudit    bool
	parkHTTP     bool

	opMu    sync.Mutex
	opSeq   int
	curOps  map[*kernel.Task]*OpCtx
	seqOp   *OpCtx // sequential worlds: the op in progress
	markers [][]byte
	nonce   string
	valCtr  int

	WhoIsFault map[string]int // addr -> fault kind for next request (0 none)
	lastHTTP   map[*kernel.Task]*HTTPRec
	seqHTTP    *HTTPRec
	Corrupt    *Corruption // next request corruption (sequential HTTP worlds)

	Ops     int
	Trace   []string
	KekBase int // KEK call count right after the last Open
}

// OpCtx is the context of one client operation in progress.
type OpCtx struct {
	Seq       int
	Caller    *Caller
	Op        model.Op
	PreFile   []byte
	AuditFail bool
	Partial   []byte
}

func (e *Env) curOpSeq() int {
	if o := e.curOp(); o != nil {
		return o.Seq
	}
	return 0
}

func (e *Env) curOp() *OpCtx {
	if e.seqOp != nil {
		return e.seqOp
	}
	if e.curOps == nil {
		return nil
	}
	t := e.S.CurTask()
	e.opMu.Lock()
	defer e.opMu.Unlock()
	return e.curOps[t]
}

func (e *Env) auditFailed(partial []byte) {
	if o := e.curOp(); o != nil {
		o.AuditFail = true
		o.Partial = partial
	}
}

// HTTPRec is what the in-process transport saw for the last request.
type HTTPRec struct {
	Status  int
	Body    []byte
	Header  http.Header
	ReqBody []byte
	Path    string
}

var runCounter int

// ScratchRoot is where per-run directories live.
func ScratchRoot() string {
	if d := os.Getenv("VERIF_SCRATCH"); d != "" {
		return d
	}
	if st, err := os.Stat("/dev/shm"); err == nil && st.IsDir() {
		return "/dev/shm"
	}
	return os.TempDir()
}

// NewEnv builds the system: directory, key, sink, database, server.
func NewEnv(s *kernel.Sim, prof *Profile) (*Env, error) {
	runCounter++
	dir, err := os.MkdirTemp(ScratchRoot(), fmt.Sprintf("verif-db-%d-", os.Getpid()))
	if err != nil {
		return nil, err
	}
	e := &Env{S: s, T: s.T, Prof: prof, Dir: dir, Path: filepath.Join(dir, "secrets.db"),
		Model: model.NewDB(), WhoIsFault: map[string]int{}, lastHTTP: map[*kernel.Task]*HTTPRec{}}
	e.nonce = fmt.Sprintf("%016x", kernel.Hash64(s.T.Seed, "nonce", 1))
	e.KEK = NewKEK(int(kernel.Hash64(s.T.Seed, "kek", 0) % 4))
	e.Sink = &Sink{e: e, FailAt: -1}
	return e, nil
}

// Open opens (or creates) the database and registers the server handlers.
func (e *Env) Open() error {
	d, err := db.Open(e.Path, e.KEK, audit.New(e.Sink))
	if err != nil {
		return err
	}
	e.DB = d
	e.KekBase = e.KEK.Count()
	if !e.HTTP {
		return nil
	}
	return e.serverFor(d)
}

func (e *Env) serverFor(d *db.DB) error {
	e.Mux = http.NewServeMux()
	_, err := server.New(context.Background(), server.Config{
		DB: d, WhoIs: e.whoIs, Mux: e.Mux,
	})
	return err
}

// Close removes the run's directory.
func (e *Env) Close() { os.RemoveAll(e.Dir) }

// MakeCallers creates the superuser, the observer identity and n restricted callers.
func (e *Env) MakeCallers(n int, patterns []string) {
	mk := func(id int, rules []model.Rule) *Caller {
		c := &Caller{ID: id, Addr: fmt.Sprintf("100.64.0.%d:%d", id+1, 40000+id), Rules: rules,
			Node: fmt.Sprintf("node%d.example.ts.net", id)}
		if id%2 == 0 {
			c.User = fmt.Sprintf("user%d@example.com", id)
		} else {
			c.Tags = []string{fmt.Sprintf("tag:svc%d", id)}
		}
		c.dbc = db.Caller{Principal: c.principal(), Permissions: toACL(rules)}
		return c
	}
	// The superuser's rules name every pool name exactly as well as '*', so
	// that a matcher defect in '*' cannot blind the driver of the workload.
	pats := []string{"*"}
	for _, nm := range e.Names {
		if !strings.Contains(nm, "*") {
			pats = append(pats, nm)
		}
	}
	e.Super = mk(0, []model.Rule{{Actions: allActions, Patterns: pats}})
	e.Super.Super = true
	e.Observer = db.Caller{Principal: audit.Principal{Hostname: "observer"}, Permissions: toACL(e.Super.Rules)}
	e.Callers = []*Caller{e.Super}
	if n > 0 {
		patterns = append(append([]string{}, patterns...), e.derivedPatterns()...)
	}
	for i := 1; i <= n; i++ {
		c := mk(i, e.drawRules(patterns))
		c.LegacyCap = e.T.Bool(1, 5)
		if e.T.Bool(1, 4) {
			// a peer on the server's own machine (tailscaled knows those too)
			c.Addr = []string{"127.0.0.1", "[::1]", "127.0.0.53"}[e.T.Choice(3)] + fmt.Sprintf(":%d", 40000+i)
			c.dbc.Principal = c.principal()
		}
		if e.T.Bool(1, 3) {
			// a peer that decorates its requests with headers naming somebody
			// else (the superuser): proxies' headers are not the tailnet's word
			sup := "100.64.0.1"
			c.Headers = map[string]string{"X-Forwarded-For": sup, "X-Real-Ip": sup, "Forwarded": "for=" + sup,
				"Tailscale-User-Login": "user0@example.com", "X-Forwarded-Host": "setec.sim", "X-Remote-Addr": sup + ":40000"}
		}
		e.Callers = append(e.Callers, c)
	}
}

// drawRules draws a rule set: mostly a few small rules, sometimes many rules
// and rules with long pattern and action lists (3, 5, 6, 7 ... entries).
func (e *Env) drawRules(pats []string) []model.Rule {
	nr := e.T.Weighted([]int{2, 4, 4, 3, 2, 1})
	var rules []model.Rule
	for j := 0; j < nr; j++ {
		var r model.Rule
		for k, na := 0, 1+e.T.Weighted([]int{5, 4, 2, 1}); k < na; k++ {
			r.Actions = append(r.Actions, allActions[e.T.Choice(len(allActions))])
		}
		for k, np := 0, 1+e.T.Weighted([]int{8, 6, 4, 1, 2, 1, 1}); k < np; k++ {
			r.Patterns = append(r.Patterns, pats[e.T.Choice(len(pats))])
		}
		rules = append(rules, r)
	}
	return rules
}

// redrawRules gives a restricted caller a fresh rule set (possibly empty).
func (e *Env) redrawRules(c *Caller) {
	pats := append(append([]string{}, patternPool...), e.derivedPatterns()...)
	c.Rules = e.drawRules(pats)
	c.dbc = db.Caller{Principal: c.principal(), Permissions: toACL(c.Rules)}
}

// ---- identity service ----

const (
	WhoOK = iota
	WhoError
	WhoAnonymous
	WhoMalformedGrant
	WhoEmptyGrants
	WhoNumKinds
)

func (e *Env) whoIs(ctx context.Context, addr string) (*apitype.WhoIsResponse, error) {
	if e.parkHTTP {
		e.S.Park("whois", addr, nil, nil, nil)
	}
	var c *Caller
	for _, x := range e.Callers {
		if x.Addr == addr {
			c = x
		}
	}
	if c == nil {
		// like tailscaled: an address whose port is unknown is looked up by IP
		if ap, err := netip.ParseAddrPort(addr); err == nil {
			for _, x := range e.Callers {
				if xp, err := netip.ParseAddrPort(x.Addr); err == nil && xp.Addr() == ap.Addr() {
					c = x
				}
			}
		} else if ip, err := netip.ParseAddr(addr); err == nil {
			for _, x := range e.Callers {
				if xp, err := netip.ParseAddrPort(x.Addr); err == nil && xp.Addr() == ip {
					c = x
				}
			}
		}
	}
	if c == nil {
		return nil, errors.New("sim: unknown peer")
	}
	e.opMu.Lock()
	fault := e.WhoIsFault[addr]
	delete(e.WhoIsFault, addr)
	e.opMu.Unlock()
	switch fault {
	case WhoError:
		e.S.Fault("whois-error")
		return nil, errors.New("sim: whois failed")
	}
	resp := &apitype.WhoIsResponse{
		Node:        &tailcfg.Node{Name: c.Node, Tags: c.Tags},
		UserProfile: &tailcfg.UserProfile{LoginName: c.User},
		CapMap:      tailcfg.PeerCapMap{},
	}
	var raws []tailcfg.RawMessage
	for _, r := range c.Rules {
		b, _ := json.Marshal(map[string]any{"action": r.Actions, "secret": r.Patterns})
		raws = append(raws, tailcfg.RawMessage(b))
	}
	capName := server.ACLCap
	if c.LegacyCap {
		capName = "https://" + server.ACLCap
	}
	switch fault {
	case WhoAnonymous:
		e.S.Fault("whois-anonymous")
		resp.Node.Tags = nil
		resp.UserProfile.LoginName = ""
	case WhoMalformedGrant:
		e.S.Fault("whois-malformed-grant")
		raws = append(raws, tailcfg.RawMessage(`{"action": 17, "secret": "x"}`))
	case WhoEmptyGrants:
		e.S.Fault("whois-empty-grants")
		raws = nil
	}
	if raws != nil {
		resp.CapMap[capName] = raws
	}
	return resp, nil
}

func sortedKeys(m map[string]string) []string {
	var ks []string
	for k := range m {
		ks = append(ks, k)
	}
	sort.Strings(ks)
	return ks
}

// ---- in-process HTTP transport ----

// Corruption describes how the next request is damaged on the way.
type Corruption struct {
	Kind   string
	Class  string // "ill-formed" | "well-formed" | "unspecified"
	Method string
	CT     *string // nil: keep
	NB     *string // browser header; nil: keep
	Body   func([]byte) []byte
	Path   string
	// BodyErr: the connection breaks after the body bytes were delivered
	// (reading the body ends in an error instead of EOF)
	BodyErr bool
	// Extra headers added to the request
	Extra map[string]string
	// Eff: the operation the damaged request amounts to if it is accepted
	Eff *model.Op
}

type brokenBody struct{}

func (brokenBody) Read([]byte) (int, error) { return 0, errors.New("sim: connection reset by peer") }

func (e *Env) transport(c *Caller) func(*http.Request) (*http.Response, error) {
	return func(r *http.Request) (*http.Response, error) {
		body, _ := io.ReadAll(r.Body)
		method := r.Method
		path := r.URL.Path
		hdr := r.Header.Clone()
		for _, k := range sortedKeys(c.Headers) {
			hdr.Set(k, c.Headers[k])
		}
		var cor *Corruption
		if e.curOps == nil {
			cor = e.Corrupt
		}
		if cor != nil {
			e.Corrupt = nil
			if cor.Method != "" {
				method = cor.Method
			}
			if cor.CT != nil {
				if *cor.CT == "" {
					hdr.Del("Content-Type")
				} else {
					hdr.Set("Content-Type", *cor.CT)
				}
			}
			if cor.NB != nil {
				if *cor.NB == "" {
					hdr.Del("Sec-X-Tailscale-No-Browsers")
				} else {
					hdr.Set("Sec-X-Tailscale-No-Browsers", *cor.NB)
				}
			}
			for _, k := range sortedKeys(cor.Extra) {
				hdr.Set(k, cor.Extra[k])
			}
			if cor.Body != nil {
				body = cor.Body(body)
			}
			if cor.Path != "" {
				path = cor.Path
			}
			e.S.Fault("http-" + cor.Kind)
		}
		if e.parkHTTP {
			e.S.Park("http", "deliver "+path, nil, nil, nil)
		}
		var rd io.Reader = bytes.NewReader(body)
		if cor != nil && cor.BodyErr {
			rd = io.MultiReader(bytes.NewReader(body), brokenBody{})
		}
		sreq := httptest.NewRequest("POST", path, rd)
		sreq.Method = method
		sreq.Header = hdr
		sreq.RemoteAddr = c.Addr
		sreq = sreq.WithContext(r.Context())
		rec := httptest.NewRecorder()
		e.Mux.ServeHTTP(rec, sreq)
		if e.parkHTTP {
			e.S.Park("http", "respond "+path, nil, nil, nil)
		}
		res := rec.Result()
		rb, _ := io.ReadAll(res.Body)
		hr := &HTTPRec{Status: res.StatusCode, Body: rb, Header: res.Header, ReqBody: body, Path: path}
		if e.curOps != nil {
			e.opMu.Lock()
			e.lastHTTP[e.S.CurTask()] = hr
			e.opMu.Unlock()
		} else {
			e.seqHTTP = hr
		}
		res.Body = io.NopCloser(bytes.NewReader(rb))
		return res, nil
	}
}

// Client returns the real setec client wired to the in-process transport.
func (e *Env) Client(c *Caller) setec.Client {
	return setec.Client{Server: "http://setec.sim", DoHTTP: e.transport(c)}
}

// ---- executing operations ----

func classify(err error) (model.Class, string) {
	switch {
	case err == nil:
		return model.OK, ""
	case errors.Is(err, db.ErrAccessDenied), errors.Is(err, api.ErrAccessDenied):
		return model.AccessDenied, err.Error()
	case errors.Is(err, db.ErrNotFound), errors.Is(err, api.ErrNotFound):
		return model.NotFound, err.Error()
	case errors.Is(err, api.ErrValueNotChanged):
		return model.NotChanged, err.Error()
	}
	return model.OtherError, err.Error()
}

func infoOf(i *api.SecretInfo) model.Info {
	m := model.Info{Name: i.Name, Active: uint32(i.ActiveVersion)}
	for _, v := range i.Versions {
		m.Versions = append(m.Versions, uint32(v))
	}
	return m
}

// Exec performs op as caller c on the real system, through the DB API or the
// client + handlers, and returns the observed result.
func (e *Env) Exec(c *Caller, op model.Op) model.Res {
	var res model.Res
	var err error
	ctx := context.Background()
	fill := func(sv *api.SecretValue) {
		if sv != nil {
			res.Value = append([]byte{}, sv.Value...)
			res.Version = uint32(sv.Version)
			// the result belongs to the caller, who may scrub it after use
			for i := range sv.Value {
				sv.Value[i] ^= 0xA5
			}
		}
	}
	fillList := func(l []*api.SecretInfo) {
		res.List = []model.Info{}
		for _, i := range l {
			res.List = append(res.List, infoOf(i))
		}
	}
	if e.HTTP {
		cl := e.Client(c)
		switch op.Kind {
		case model.OpList:
			var l []*api.SecretInfo
			if l, err = cl.List(ctx); err == nil {
				fillList(l)
			}
		case model.OpInfo:
			var i *api.SecretInfo
			if i, err = cl.Info(ctx, op.Name); err == nil && i != nil {
				m := infoOf(i)
				res.Info = &m
			}
		case model.OpGet:
			var sv *api.SecretValue
			sv, err = cl.Get(ctx, op.Name)
			fill(sv)
		case model.OpGetVersion:
			var sv *api.SecretValue
			sv, err = cl.GetVersion(ctx, op.Name, api.SecretVersion(op.Version))
			fill(sv)
		case model.OpGetIfChanged:
			var sv *api.SecretValue
			sv, err = cl.GetIfChanged(ctx, op.Name, api.SecretVersion(op.Version))
			fill(sv)
		case model.OpPut:
			var v api.SecretVersion
			v, err = cl.Put(ctx, op.Name, op.Value)
			res.Version = uint32(v)
		case model.OpActivate:
			err = cl.Activate(ctx, op.Name, api.SecretVersion(op.Version))
		case model.OpDeleteVersion:
			err = cl.DeleteVersion(ctx, op.Name, api.SecretVersion(op.Version))
		case model.OpDelete:
			err = cl.Delete(ctx, op.Name)
		}
	} else {
		d, id := e.DB, c.dbc
		switch op.Kind {
		case model.OpList:
			var l []*api.SecretInfo
			if l, err = d.List(id); err == nil {
				fillList(l)
			}
		case model.OpInfo:
			var i *api.SecretInfo
			if i, err = d.Info(id, op.Name); err == nil && i != nil {
				m := infoOf(i)
				res.Info = &m
				for k := range i.Versions {
					i.Versions[k] = 0
				}
			}
		case model.OpGet:
			var sv *api.SecretValue
			sv, err = d.Get(id, op.Name)
			fill(sv)
		case model.OpGetVersion:
			var sv *api.SecretValue
			sv, err = d.GetVersion(id, op.Name, api.SecretVersion(op.Version))
			fill(sv)
		case model.OpGetIfChanged:
			var sv *api.SecretValue
			sv, err = d.GetConditional(id, op.Name, api.SecretVersion(op.Version))
			fill(sv)
		case model.OpPut:
			var v api.SecretVersion
			// the argument belongs to the caller, who may reuse the buffer
			arg := append([]byte(nil), op.Value...)
			if op.Value != nil && arg == nil {
				arg = []byte{}
			}
			v, err = d.Put(id, op.Name, arg)
			for i := range arg {
				arg[i] ^= 0x5A
			}
			res.Version = uint32(v)
		case model.OpActivate:
			err = d.Activate(id, op.Name, api.SecretVersion(op.Version))
		case model.OpDeleteVersion:
			err = d.DeleteVersion(id, op.Name, api.SecretVersion(op.Version))
		case model.OpDelete:
			err = d.Delete(id, op.Name)
		}
	}
	res.Class, res.ErrText = classify(err)
	// error texts can carry the run's scratch directory and the random
	// suffix of a temporary file: keep them out of logs and comparisons
	if res.ErrText != "" {
		res.ErrText = tmpSuffix.ReplaceAllString(strings.ReplaceAll(res.ErrText, e.Dir, "<dir>"), ".tmpN")
	}
	if res.Class != model.OK {
		// a failed call must not carry a value; keep what came back so the
		// oracle can see it
		if res.Value != nil || res.Info != nil || res.List != nil {
			res.ErrText += " [+payload]"
		}
	}
	return res
}

// ModelOp maps an op to the op the model should judge: through HTTP a
// version of 0 on get-version means "the active version" (docs/api.md).
func (e *Env) ModelOp(op model.Op) model.Op {
	if e.HTTP && op.Kind == model.OpGetVersion && op.Version == 0 {
		op.Kind = model.OpGet
	}
	return op
}

// ReadFile returns the database file's bytes (nil if absent).
func (e *Env) ReadFile() []byte {
	b, _ := os.ReadFile(e.Path)
	return b
}

// Observe reads the full observable state as the observer (no audit
// faults, no parks) and renders it like model.DumpVisible.
func (e *Env) Observe() (string, error) {
	e.observing = true
	free := e.S != nil
	_ = free
	defer func() { e.observing = false }()
	var sb strings.Builder
	l, err := e.DB.List(e.Observer)
	if err != nil {
		return "", fmt.Errorf("observer list: %w", err)
	}
	for _, i := range l {
		fmt.Fprintf(&sb, "%q act=%d", i.Name, i.ActiveVersion)
		for _, v := range i.Versions {
			sv, err := e.DB.GetVersion(e.Observer, i.Name, v)
			if err != nil {
				return "", fmt.Errorf("observer get-version %q %d: %w", i.Name, v, err)
			}
			if sv.Version != v {
				return "", fmt.Errorf("observer get-version %q %d returned version %d", i.Name, v, sv.Version)
			}
			fmt.Fprintf(&sb, " %d=%x", v, sv.Value)
		}
		sb.WriteByte('\n')
		act, err := e.DB.Get(e.Observer, i.Name)
		if err != nil {
			return "", fmt.Errorf("observer get %q: %w", i.Name, err)
		}
		if act.Version != i.ActiveVersion {
			return "", fmt.Errorf("get %q serves version %d but info says active is %d", i.Name, act.Version, i.ActiveVersion)
		}
		av, err := e.DB.GetVersion(e.Observer, i.Name, i.ActiveVersion)
		if err != nil || !bytes.Equal(av.Value, act.Value) {
			return "", fmt.Errorf("get %q returned bytes that differ from get-version of the active version", i.Name)
		}
	}
	return sb.String(), nil
}

func apiV(v uint32) api.SecretVersion { return api.SecretVersion(v) }
