// Package storeworld is engine E2: the real client-side Store, Updater,
// watcher, caches and FileClient under a virtual clock, against a scripted
// secrets service.
package storeworld

import (
	"context"
	"errors"
	"fmt"
	"sort"
	"strconv"
	"strings"
	"sync"
	"time"

	"github.com/tailscale/setec/types/api"

	"verifsim/kernel"
)

// Outcome kinds of a scripted request.
const (
	OutOK = iota
	OutFail
	OutHang     // never answers; returns when the context ends
	OutNotFound // the service reports ErrNotFound
	OutTimeout  // the client's own per-attempt timeout fires: an error wrapping context.DeadlineExceeded although the caller's context is alive
)

// Outcome is the script entry for the k-th request of one name.
type Outcome struct {
	Kind         int
	Latency      time.Duration
	ChangeBefore bool // a new version becomes active right before the read
	ChangeAfter  bool // ... right after the read
}

func (o Outcome) String() string {
	k := [...]string{"ok", "fail", "hang", "notfound", "timeout"}[o.Kind]
	if o.Latency > 0 {
		k += "+" + o.Latency.String()
	}
	if o.ChangeBefore {
		k += "+chg-before"
	}
	if o.ChangeAfter {
		k += "+chg-after"
	}
	return k
}

type span struct {
	from    int64 // stamp at which the version became active
	version uint32
}

type svcSecret struct {
	versions map[uint32][]byte
	active   uint32
	latest   uint32
	hist     []span
	deleted  bool // deleted at the service: requests report ErrNotFound
}

// Req is one request received by the service.
type Req struct {
	Name     string
	Cond     bool // GetIfChanged
	Old      uint32
	Task     string
	Start    int64 // stamp
	End      int64
	StartT   time.Duration
	EndT     time.Duration
	Served   uint32 // version served (0: none)
	Err      string
	Outcome  Outcome
	Index    int // k-th request of this name
	HasDL    bool
	Deadline time.Duration // virtual time of the context deadline, if any
}

// Svc is the scripted secrets service implementing setec.StoreClient.
type Svc struct {
	w        *World
	mu       sync.Mutex
	secrets  map[string]*svcSecret
	Reqs     []*Req
	Script   map[string][]Outcome
	Default  Outcome
	cnt      map[string]int
	inflight map[string]int
	MaxInfl  map[string]int
	dead     bool          // every request fails at once (dead service)
	torndown bool          // Kill was called: the run is over
	lateReqs int           // requests received after Kill
	killed   chan struct{} // closed at teardown
	NoPark   bool          // answer without parking (cadence scenario)
	Quiet    bool          // free-running mode: no parks, no kernel calls
	MaxHang  time.Duration // >0: a hanging request fails after this long (transport timeout)
	// OpaqueCtxErr: a request cut short by the caller's context reports an
	// error that does not wrap the context's error
	OpaqueCtxErr bool
	nonce        string
}

func newSvc(w *World) *Svc {
	return &Svc{w: w, secrets: map[string]*svcSecret{}, Script: map[string][]Outcome{}, cnt: map[string]int{},
		inflight: map[string]int{}, MaxInfl: map[string]int{}, killed: make(chan struct{}),
		nonce: fmt.Sprintf("%08x", uint32(kernel.Hash64(w.S.T.Seed, "svc", 0)))}
}

// valueFor builds the unique bytes of (name, version); every read is
// attributable to exactly one (name, version).
func (v *Svc) valueFor(name string, version uint32) []byte {
	pay := ""
	switch kernel.Hash64(v.w.S.T.Seed, name, uint64(version)) % 6 {
	case 0:
		pay = "\x00\x01\xff\xfe binary"
	case 1:
		pay = "line1\nline2\n"
	case 2:
		pay = strings.Repeat("L", 2000)
	}
	return []byte(fmt.Sprintf("SV|%d|%s|%d|%s|%s", len(name), name, version, v.nonce, pay))
}

// Decode attributes bytes to (name, version).
func Decode(b []byte) (name string, version uint32, ok bool) {
	s := string(b)
	if !strings.HasPrefix(s, "SV|") {
		return "", 0, false
	}
	s = s[3:]
	i := strings.IndexByte(s, '|')
	if i < 0 {
		return "", 0, false
	}
	n, err := strconv.Atoi(s[:i])
	if err != nil || len(s) < i+1+n+1 {
		return "", 0, false
	}
	name = s[i+1 : i+1+n]
	rest := s[i+1+n+1:]
	j := strings.IndexByte(rest, '|')
	if j < 0 {
		return "", 0, false
	}
	ver, err := strconv.ParseUint(rest[:j], 10, 32)
	if err != nil {
		return "", 0, false
	}
	return name, uint32(ver), true
}

// Create makes name exist at version 1 (active).
func (v *Svc) Create(name string) {
	v.mu.Lock()
	defer v.mu.Unlock()
	if v.secrets[name] != nil {
		return
	}
	v.secrets[name] = &svcSecret{versions: map[uint32][]byte{1: v.valueFor(name, 1)}, active: 1, latest: 1,
		hist: []span{{v.w.Stamp(), 1}}}
}

// Bump stores a new version and activates it.
func (v *Svc) Bump(name string) uint32 {
	v.mu.Lock()
	defer v.mu.Unlock()
	return v.bumpLocked(name)
}

func (v *Svc) bumpLocked(name string) uint32 {
	s := v.secrets[name]
	if s == nil {
		return 0
	}
	s.latest++
	s.versions[s.latest] = v.valueFor(name, s.latest)
	s.active = s.latest
	s.hist = append(s.hist, span{v.w.Stamp(), s.active})
	return s.active
}

// ActivateOld activates an older version (activation backwards).
func (v *Svc) ActivateOld(name string, k int) uint32 {
	v.mu.Lock()
	defer v.mu.Unlock()
	s := v.secrets[name]
	if s == nil || s.latest < 2 {
		return 0
	}
	ver := uint32(1 + k%int(s.latest))
	if ver == s.active {
		return 0
	}
	s.active = ver
	s.hist = append(s.hist, span{v.w.Stamp(), ver})
	return ver
}

// Active returns the active (version, bytes) of name.
func (v *Svc) Active(name string) (uint32, []byte) {
	v.mu.Lock()
	defer v.mu.Unlock()
	s := v.secrets[name]
	if s == nil {
		return 0, nil
	}
	return s.active, s.versions[s.active]
}

// Exists reports whether the service has name.
func (v *Svc) Exists(name string) bool {
	v.mu.Lock()
	defer v.mu.Unlock()
	return v.secrets[name] != nil
}

// ActiveDuring returns the versions that were active at some instant of the
// stamp window [from, to].
func (v *Svc) ActiveDuring(name string, from, to int64) []uint32 {
	v.mu.Lock()
	defer v.mu.Unlock()
	s := v.secrets[name]
	if s == nil {
		return nil
	}
	var out []uint32
	for i, sp := range s.hist {
		end := int64(1<<62 - 1)
		if i+1 < len(s.hist) {
			end = s.hist[i+1].from
		}
		if sp.from <= to && end >= from {
			out = append(out, sp.version)
		}
	}
	return out
}

// EverServed reports whether (name, version) was ever bound at the service.
func (v *Svc) EverServed(name string, version uint32) bool {
	v.mu.Lock()
	defer v.mu.Unlock()
	s := v.secrets[name]
	if s == nil {
		return false
	}
	_, ok := s.versions[version]
	return ok
}

// Kill makes every present and future request fail (teardown).
func (v *Svc) Kill() {
	v.mu.Lock()
	if !v.dead {
		v.dead = true
		v.torndown = true
		close(v.killed)
	}
	v.mu.Unlock()
}

// SetDead switches the dead-service mode without closing (restart probes).
func (v *Svc) SetDead(d bool) { v.mu.Lock(); v.dead = d; v.mu.Unlock() }

var errUnavailable = errors.New("sim: service unavailable")

func (v *Svc) request(ctx context.Context, name string, cond bool, old uint32) (*api.SecretValue, error) {
	w := v.w
	if v.Quiet {
		return v.quietRequest(ctx, name, cond, old)
	}
	task := w.S.CurTask()
	if task.InRead {
		w.S.Fail(w.Prop+".read-blocks", fmt.Sprintf("a handle read issued a request to the service for %q", name))
	}
	v.mu.Lock()
	k := v.cnt[name]
	v.cnt[name] = k + 1
	out := v.Default
	if sc := v.Script[name]; k < len(sc) {
		out = sc[k]
	}
	r := &Req{Name: name, Cond: cond, Old: old, Task: task.Name, Start: w.Stamp(), StartT: w.S.Now(), Outcome: out, Index: k}
	if dl, ok := ctx.Deadline(); ok {
		r.HasDL = true
		r.Deadline = w.S.Now() + time.Until(dl)
	}
	v.Reqs = append(v.Reqs, r)
	v.inflight[name]++
	if v.inflight[name] > v.MaxInfl[name] {
		v.MaxInfl[name] = v.inflight[name]
	}
	dead := v.dead
	if v.torndown {
		v.lateReqs++
		if v.lateReqs > 300 {
			// A caller that keeps asking although every request fails and every
			// context is cancelled never ends: park it for good, so that the
			// teardown can (the run reports the task as stuck).
			v.mu.Unlock()
			select {}
		}
	}
	nopark := v.NoPark
	v.mu.Unlock()
	w.S.Log("svc request %s cond=%v old=%d #%d %s", strconv.Quote(name), cond, old, k, out)

	finish := func(sv *api.SecretValue, err error) (*api.SecretValue, error) {
		w.S.Gate("svc-return " + name)
		v.mu.Lock()
		v.inflight[name]--
		r.End = w.Stamp()
		r.EndT = w.S.Now()
		if err != nil {
			r.Err = err.Error()
		} else {
			r.Served = uint32(sv.Version)
		}
		v.mu.Unlock()
		return sv, err
	}
	if dead {
		return finish(nil, errUnavailable)
	}
	if !nopark {
		// honour the caller's context while parked
		done := make(chan struct{})
		stop := make(chan struct{})
		go func() {
			select {
			case <-ctx.Done():
			case <-v.killed:
			case <-stop:
				return
			}
			close(done)
		}()
		ok := w.S.Park("svc", name, nil, r, done)
		close(stop)
		if !ok {
			if ctx.Err() != nil {
				return finish(nil, v.ctxErr(ctx))
			}
			return finish(nil, errUnavailable)
		}
	}
	if out.Latency > 0 {
		w.S.Fault("svc-latency")
		tm := time.NewTimer(out.Latency)
		select {
		case <-tm.C:
		case <-ctx.Done():
			tm.Stop()
			return finish(nil, v.ctxErr(ctx))
		case <-v.killed:
			tm.Stop()
			return finish(nil, errUnavailable)
		}
	}
	switch out.Kind {
	case OutFail:
		w.S.Fault("svc-fail")
		return finish(nil, errUnavailable)
	case OutHang:
		w.S.Fault("svc-hang")
		var tmo <-chan time.Time
		if v.MaxHang > 0 {
			tm := time.NewTimer(v.MaxHang)
			defer tm.Stop()
			tmo = tm.C
		}
		select {
		case <-ctx.Done():
			return finish(nil, v.ctxErr(ctx))
		case <-v.killed:
			return finish(nil, errUnavailable)
		case <-tmo:
			return finish(nil, errUnavailable)
		}
	case OutNotFound:
		w.S.Fault("svc-notfound")
		return finish(nil, api.ErrNotFound)
	case OutTimeout:
		w.S.Fault("svc-attempt-timeout")
		return finish(nil, fmt.Errorf("get %q: %w (Client.Timeout exceeded while awaiting headers)", name, context.DeadlineExceeded))
	}
	if ctx.Err() != nil {
		return finish(nil, v.ctxErr(ctx))
	}
	v.mu.Lock()
	s := v.secrets[name]
	if s == nil || s.deleted {
		v.mu.Unlock()
		if s != nil {
			w.S.Fault("svc-secret-deleted")
		}
		return finish(nil, api.ErrNotFound)
	}
	if out.ChangeBefore {
		v.bumpLocked(name)
		w.S.Fault("svc-change-before-read")
	}
	ver, val := s.active, s.versions[s.active]
	if out.ChangeAfter {
		v.bumpLocked(name)
		w.S.Fault("svc-change-after-read")
	}
	v.mu.Unlock()
	if cond && old != 0 && ver == old {
		return finish(nil, api.ErrValueNotChanged)
	}
	return finish(&api.SecretValue{Value: append([]byte{}, val...), Version: api.SecretVersion(ver)}, nil)
}

// ctxErr is what a request reports when the caller's context ended: the
// context's error, or - a client that does not wrap it - an opaque one.
func (v *Svc) ctxErr(ctx context.Context) error {
	if v.OpaqueCtxErr {
		return errAborted
	}
	return ctx.Err()
}

var errAborted = errors.New("sim: request aborted")

// quietRequest answers at once without touching the kernel (free-running
// race-detector runs: harness mutexes would add happens-before edges).
func (v *Svc) quietRequest(ctx context.Context, name string, cond bool, old uint32) (*api.SecretValue, error) {
	if err := ctx.Err(); err != nil {
		return nil, err
	}
	v.mu.Lock()
	s := v.secrets[name]
	if s == nil {
		v.mu.Unlock()
		return nil, api.ErrNotFound
	}
	v.cnt[name]++
	if v.cnt[name]%3 == 0 {
		v.bumpLocked(name)
	}
	ver, val := s.active, s.versions[s.active]
	v.mu.Unlock()
	if cond && old != 0 && ver == old {
		return nil, api.ErrValueNotChanged
	}
	return &api.SecretValue{Value: append([]byte{}, val...), Version: api.SecretVersion(ver)}, nil
}

// Get implements setec.StoreClient.
func (v *Svc) Get(ctx context.Context, name string) (*api.SecretValue, error) {
	return v.request(ctx, name, false, 0)
}

// GetIfChanged implements setec.StoreClient.
func (v *Svc) GetIfChanged(ctx context.Context, name string, old api.SecretVersion) (*api.SecretValue, error) {
	return v.request(ctx, name, true, uint32(old))
}

// ReqsSince returns the requests with Start >= stamp.
func (v *Svc) ReqsSince(stamp int64) []*Req {
	v.mu.Lock()
	defer v.mu.Unlock()
	var out []*Req
	for _, r := range v.Reqs {
		if r.Start >= stamp {
			out = append(out, r)
		}
	}
	return out
}

// NumReqs returns the number of requests so far.
func (v *Svc) NumReqs() int { v.mu.Lock(); defer v.mu.Unlock(); return len(v.Reqs) }

// Delete removes name at the service (an operator deleting a secret that
// stores still use): requests report ErrNotFound until it is put again.
func (v *Svc) Delete(name string) bool {
	v.mu.Lock()
	defer v.mu.Unlock()
	s := v.secrets[name]
	if s == nil || s.deleted {
		return false
	}
	s.deleted = true
	return true
}

// Undelete puts name again: a new, larger version number becomes active (a
// service that restarted numbering would be outside what the store claims).
func (v *Svc) Undelete(name string) uint32 {
	v.mu.Lock()
	defer v.mu.Unlock()
	s := v.secrets[name]
	if s == nil || !s.deleted {
		return 0
	}
	s.deleted = false
	return v.bumpLocked(name)
}

// Deleted lists the names currently deleted at the service.
func (v *Svc) Deleted() []string {
	v.mu.Lock()
	defer v.mu.Unlock()
	var out []string
	for n, s := range v.secrets {
		if s.deleted {
			out = append(out, n)
		}
	}
	sort.Strings(out)
	return out
}

// Names returns the service's names, sorted.
func (v *Svc) Names() []string {
	v.mu.Lock()
	defer v.mu.Unlock()
	var out []string
	for n := range v.secrets {
		out = append(out, n)
	}
	sort.Strings(out)
	return out
}
