package storeworld

import (
	"context"
	"time"

	"github.com/tailscale/setec/client/setec"

	"verifsim/kernel"
)

// Construct builds a store over the scripted service with the given config
// while the service is healthy, running the constructor to completion.
func (w *World) Construct(cfg setec.StoreConfig) bool {
	var done bool
	var err error
	ctx, _ := w.Ctx(0)
	w.Spawn("ctor", func(*kernel.Task) {
		var st *setec.Store
		st, err = setec.NewStore(ctx, cfg)
		w.Gate()
		if st != nil {
			w.Store = st
		}
		done = true
	})
	for i := 0; i < 2000 && !done && !w.S.Failed(); i++ {
		_, en := w.S.Tickets()
		if len(en) > 0 {
			w.S.Release(en[w.T.Choice(len(en))])
		} else {
			w.S.Advance(time.Second)
		}
	}
	if !done || err != nil {
		w.Fail("harness", "store construction with a healthy service failed: done=%v err=%v", done, err)
		return false
	}
	return true
}

// BaseConfig returns a StoreConfig wired to the world's seams.
func (w *World) BaseConfig(declared []string) setec.StoreConfig {
	var client setec.StoreClient = w.Svc
	if w.UseRealClient {
		client = w.RealClient()
	}
	client = obsClient{w: w, inner: client}
	return setec.StoreConfig{Client: client, Secrets: declared, Logf: w.Logf, TimeNow: w.NowFn, PollTicker: w.Ticker}
}

func context_bg() context.Context { return context.Background() }
