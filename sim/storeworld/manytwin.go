package storeworld

import (
	"bytes"
	"context"
	"fmt"
	"time"

	"github.com/tailscale/setec/client/setec"

	"verifsim/kernel"
)

// BumpTwin stores a new version of name whose bytes equal those of version
// like (0: the active one) and activates it: an operator re-putting a value
// after something else was put in between, or a rotation that happens to
// produce the same bytes. Version numbers, not bytes, decide freshness.
func (v *Svc) BumpTwin(name string, like uint32) uint32 {
	v.mu.Lock()
	defer v.mu.Unlock()
	s := v.secrets[name]
	if s == nil {
		return 0
	}
	if like == 0 {
		like = s.active
	}
	b, ok := s.versions[like]
	if !ok {
		return 0
	}
	s.latest++
	s.versions[s.latest] = append([]byte{}, b...)
	s.active = s.latest
	s.hist = append(s.hist, span{v.w.Stamp(), s.active})
	return s.active
}

// RunManyTwin is a sequential scenario (no faults, no interleavings) over two
// dimensions the live scenario does not vary: the number of secrets (up to a
// few dozen) and versions that differ in number but not in bytes. After every
// successful Refresh each handle yields the service's active bytes, the cache
// document carries the active version number and bytes of every secret, and
// a further Refresh presents exactly those version numbers to the service.
func RunManyTwin(s *kernel.Sim, prop string) *World {
	w := NewWorld(s, prop)
	defer w.Finish()
	s.SetFree(false)
	w.Svc.NoPark = true
	// the scenario is sequential: its body runs as one task and the root
	// always lets the first enabled ticket proceed (no schedule exploration)
	done := false
	w.Spawn("driver", func(*kernel.Task) {
		defer func() { done = true }()
		runManyTwin(w, s)
	})
	for i := 0; i < 400000 && !done && !s.Failed(); i++ {
		if _, en := s.Tickets(); len(en) > 0 {
			s.Release(en[0])
		} else {
			s.Advance(time.Second)
		}
	}
	if !done && !s.Failed() {
		w.Fail("harness", "the many-secrets scenario did not finish")
	}
	return w
}

func runManyTwin(w *World, s *kernel.Sim) {
	t := w.T
	n := []int{1, 2, 3, 5, 7, 8, 9, 11, 15, 16, 17, 21, 33, 40}[t.Choice(14)]
	var names []string
	for i := 0; i < n; i++ {
		names = append(names, fmt.Sprintf("many/%02d", i))
	}
	// a few of the adversarial names too, so that sorting is not by design
	for _, x := range w.DrawNames(t.Choice(3)) {
		names = append(names, x)
	}
	for _, nm := range names {
		w.Svc.Create(nm)
		for k := t.Choice(3); k > 0; k-- {
			w.Svc.Bump(nm)
		}
	}
	nDecl := len(names)
	lookups := t.Bool(1, 3)
	if lookups {
		nDecl = 1 + t.Choice(len(names))
	}
	w.Cache = w.MemCache("")
	cfg := setec.StoreConfig{Client: w.Svc, Secrets: names[:nDecl], Logf: w.Logf, TimeNow: w.NowFn, PollTicker: w.Ticker,
		Cache: w.Cache, AllowLookup: lookups}
	st, err := setec.NewStore(context.Background(), cfg)
	w.Gate()
	if err != nil {
		w.Fail("harness", "NewStore with a healthy service: %v", err)
		return
	}
	w.Store = st
	handles := map[string]setec.Secret{}
	for i, nm := range names {
		if i < nDecl {
			handles[nm] = st.Secret(nm)
		} else {
			h, err := st.LookupSecret(context.Background(), nm)
			w.Gate()
			if err != nil {
				w.Fail("harness", "lookup of %q with a healthy service: %v", nm, err)
				return
			}
			handles[nm] = h
		}
		if handles[nm] == nil {
			w.Fail("many", "no handle for %q", nm)
			return
		}
	}
	w.Tracef("config secrets=%d declared=%d lookups=%v", len(names), nDecl, lookups)
	check := func(when string) bool {
		doc, err := ParseDoc(w.Cache.LastGood())
		if err != nil {
			w.Fail("many", "%s: the cache does not hold a document: %v", when, err)
			return false
		}
		for _, nm := range names {
			av, ab := w.Svc.Active(nm)
			if got := handles[nm].Get(); !bytes.Equal(got, ab) {
				w.Fail("many", "%s: a Refresh completed without error, but the handle of %q (one of %d secrets) does not yield the bytes of the service's active version %d: %q", when, nm, len(names), av, trunc(got))
				return false
			}
			e := doc[nm]
			if e == nil || e.Secret == nil {
				w.Fail("many", "%s: the cache document has no entry for %q", when, nm)
				return false
			}
			if e.Secret.Version != av || !bytes.Equal(e.Secret.Value, ab) {
				w.Fail("many", "%s: a Refresh completed without error and the service's active version of %q is %d, but the cache holds version %d (bytes equal: %v)", when, nm, av, e.Secret.Version, bytes.Equal(e.Secret.Value, ab))
				return false
			}
		}
		return true
	}
	rounds := t.Range(2, 5)
	for r := 0; r < rounds && !s.Failed(); r++ {
		// server-side changes
		for _, nm := range names {
			switch t.Weighted([]int{5, 3, 3, 2, 2}) {
			case 1:
				v := w.Svc.Bump(nm)
				w.Tracef("round %d: %q -> new version %d", r, nm, v)
			case 2:
				v := w.Svc.BumpTwin(nm, 0)
				w.Tracef("round %d: %q -> version %d with the bytes of the previous active version", r, nm, v)
				w.S.Fault("same-bytes-new-version")
			case 3:
				av, _ := w.Svc.Active(nm)
				if av > 1 {
					v := w.Svc.BumpTwin(nm, uint32(1+t.Choice(int(av)-1)))
					w.Tracef("round %d: %q -> version %d with the bytes of an older version", r, nm, v)
					w.S.Fault("same-bytes-new-version")
				}
			case 4:
				if v := w.Svc.ActivateOld(nm, t.Choice(8)); v != 0 {
					w.Tracef("round %d: %q -> older version %d activated", r, nm, v)
				}
			}
		}
		err := st.Refresh(context.Background())
		w.Gate()
		if err != nil {
			w.Fail("harness", "Refresh with a healthy service: %v", err)
			return
		}
		w.Ops++
		if !check(fmt.Sprintf("round %d", r)) {
			return
		}
		// nothing changed: the next round presents the active version numbers
		// (and is therefore answered "not modified" throughout)
		base := w.Svc.NumReqs()
		err = st.Refresh(context.Background())
		w.Gate()
		if err != nil {
			w.Fail("harness", "Refresh with a healthy service: %v", err)
			return
		}
		asked := map[string]bool{}
		for _, rq := range w.Svc.ReqsSince(0)[base:] {
			av, _ := w.Svc.Active(rq.Name)
			asked[rq.Name] = true
			// (a store that polls unconditionally shows nothing here; the
			// cache document above carries its version numbers)
			if rq.Cond && rq.Old != av {
				w.Fail("many", "round %d: after a completed Refresh the store asked for %q presenting version %d although the service's active version is %d: the store does not hold the active version number", r, rq.Name, rq.Old, av)
				return
			}
		}
		for _, nm := range names {
			if !asked[nm] {
				w.Fail("many", "round %d: a Refresh completed without error but never asked the service about %q (one of %d secrets)", r, nm, len(names))
				return
			}
		}
		w.S.Probe("many-checked")
	}
}
