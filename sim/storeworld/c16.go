package storeworld

import (
	"context"
	"errors"
	"fmt"
	"strings"
	"time"

	"github.com/tailscale/setec/client/setec"

	"verifsim/kernel"
)

type lkStruct struct {
	One string `setec:"lk/one"`
	Two []byte `setec:"lk/two"`
}

type lkCaller struct {
	id       int
	entry    int // 0 LookupSecret 1 NewUpdater 2 Apply 3 Secret
	names    []string
	deadline time.Duration // 0: none
	cancelAt time.Duration // >0: cancelled by the root at this virtual time
	cancel   context.CancelFunc
	ctx      context.Context
	started  bool
	done     bool
	callT    time.Duration
	retT     time.Duration
	err      error
	panicked any
	handle   setec.Secret
	upd      *setec.Updater[string]
	applied  *lkStruct
}

// RunC16 is the lookup scenario.
func RunC16(s *kernel.Sim) *World {
	w := NewWorld(s, "C16")
	defer w.Finish()
	t := w.T
	s.SetFree(false)
	allow := t.Bool(3, 4)
	declared := []string{"alpha"}
	if t.Bool(1, 2) {
		declared = append(declared, "beta")
	}
	undeclared := []string{"lk/one", "lk/two", "lk/three"}
	for _, n := range append(append([]string{}, declared...), undeclared...) {
		w.Svc.Create(n)
	}
	absent := "lk/absent"
	w.Cache = w.MemCache("")
	w.UseRealClient = t.Bool(1, 3)
	cfg := w.BaseConfig(declared)
	cfg.AllowLookup = allow
	cfg.Cache = w.Cache
	if !w.Construct(cfg) {
		return w
	}
	st := w.Store
	baseReqs := w.Svc.NumReqs()
	if t.Bool(1, 3) {
		// the cache fails some of the writes that follow (a lookup's flush,
		// say): tolerated by the store, never a reason to fail a lookup
		for i := 0; i < 3; i++ {
			w.Cache.FailWrites[w.Cache.NumWrites()+t.Choice(4)] = true
		}
	}

	// service script for the lookups
	mode := t.Choice(4) // 0 healthy 1 mixed 2 hangs forever 3 slow
	for _, n := range append(append([]string{}, undeclared...), absent) {
		var sc []Outcome
		for i := 0; i < 8; i++ {
			o := Outcome{}
			switch mode {
			case 1:
				switch t.Choice(5) {
				case 0:
					o.Kind = OutFail
				case 1:
					o.Kind = OutHang
				case 2:
					o.Latency = time.Duration(t.Range(1, 400))*time.Second + 137*time.Millisecond
				}
			case 2:
				o.Kind = OutHang
			case 3:
				o.Latency = time.Duration(t.Range(1, 290))*time.Second + 137*time.Millisecond
			}
			sc = append(sc, o)
		}
		w.Svc.Script[n] = sc
	}
	if mode == 2 {
		w.Svc.Default = Outcome{Kind: OutHang}
	}
	nCallers := t.Range(1, 4)
	var callers []*lkCaller
	for i := 0; i < nCallers; i++ {
		c := &lkCaller{id: i, entry: t.Weighted([]int{5, 2, 1, 1})}
		pick := func() string {
			switch t.Weighted([]int{6, 1, 1}) {
			case 0:
				return undeclared[t.Choice(2)] // concentrate on two names: callers collide
			case 1:
				return declared[0]
			}
			return absent
		}
		if c.entry == 2 {
			c.names = []string{"lk/one", "lk/two"}
		} else {
			c.names = []string{pick()}
		}
		switch t.Weighted([]int{3, 2, 2}) {
		case 1:
			c.deadline = []time.Duration{time.Second, 30 * time.Second, 2 * time.Minute, 7 * time.Minute, 12 * time.Minute}[t.Choice(5)]
		case 2:
			c.cancelAt = []time.Duration{time.Second, 20 * time.Second, 90 * time.Second, 4 * time.Minute, 6*time.Minute + 7*time.Second, 9 * time.Minute}[t.Choice(6)]
		}
		callers = append(callers, c)
	}
	w.Tracef("config allow=%v declared=%q mode=%d callers=%d realClient=%v", allow, declared, mode, nCallers, w.UseRealClient)
	for _, c := range callers {
		w.Tracef("caller %d entry=%d names=%q deadline=%v cancelAt=%v", c.id, c.entry, c.names, c.deadline, c.cancelAt)
	}
	for _, n := range undeclared {
		w.Tracef("script %q: %v", n, w.Svc.Script[n])
	}

	start := func(c *lkCaller) {
		c.started = true
		c.callT = s.Now()
		c.ctx, c.cancel = w.Ctx(c.deadline)
		if c.cancelAt > 0 {
			c.cancelAt += c.callT
		}
		w.Tracef("caller %d starts", c.id)
		w.Spawn(fmt.Sprintf("lk%d-", c.id), func(*kernel.Task) {
			defer func() {
				if r := recover(); r != nil {
					c.panicked = r
				}
				w.Gate()
				c.retT = s.Now()
				c.done = true
				w.Tracef("caller %d returned err=%v panic=%v", c.id, c.err, c.panicked)
			}()
			switch c.entry {
			case 0:
				c.handle, c.err = st.LookupSecret(c.ctx, c.names[0])
			case 1:
				c.upd, c.err = setec.NewUpdater(c.ctx, st, c.names[0], func(b []byte) (string, error) { return string(b), nil })
			case 2:
				c.applied = &lkStruct{}
				var f *setec.Fields
				f, c.err = setec.ParseFields(c.applied, "")
				if c.err == nil {
					c.err = f.Apply(c.ctx, st)
				}
			case 3:
				c.handle = st.Secret(c.names[0])
			}
		})
	}
	next := 0
	allDone := func() bool {
		for _, c := range callers {
			if !c.done {
				return false
			}
		}
		return true
	}
	horizon := s.Now() + 45*time.Minute
	w.Loop(3000, 6, func() bool { return !(next == len(callers) && allDone()) && s.Now() < horizon }, func() []Action {
		var acts []Action
		if next < len(callers) {
			acts = append(acts, Action{W: 4, Name: "start caller", Do: func() { start(callers[next]); next++ }})
		}
		// cancellations that are due
		for _, c := range callers {
			c := c
			if c.started && !c.done && c.cancelAt > 0 && s.Now() >= c.cancelAt {
				acts = append(acts, Action{W: 20, Name: "cancel", Do: func() {
					w.Tracef("cancel caller %d", c.id)
					s.Fault("caller-cancelled")
					c.cancelAt = 0
					c.cancel()
					s.Advance(0)
				}})
			}
		}
		// time only passes while nothing is runnable: a task held back by the
		// scheduler while the clock runs would be a stalled CPU, which the
		// timing clauses of the property do not cover
		if _, en := s.Tickets(); len(en) == 0 {
			acts = append(acts, Action{W: 8, Name: "advance", Do: func() {
				s.Advance([]time.Duration{time.Second, 10 * time.Second, time.Minute, 5*time.Minute + time.Second}[t.Weighted([]int{3, 3, 3, 2})])
			}})
		}
		return acts
	})
	// let everything runnable run (no time passes): whoever has not returned
	// after this is waiting for a request or a timer, not for the scheduler
	w.RunUntilQuiet(2000)
	w.Ops = w.Svc.NumReqs() - baseReqs + len(callers)
	if s.Failed() {
		return w
	}

	// ---- oracles ----
	reqs := w.Svc.ReqsSince(0)[baseReqs:]
	known := map[string]bool{}
	for _, n := range declared {
		known[n] = true
	}
	lookupReqs := map[string][]*Req{}
	for _, r := range reqs {
		if !r.Cond {
			lookupReqs[r.Name] = append(lookupReqs[r.Name], r)
		}
	}
	callersOf := map[string]int{}
	for _, c := range callers {
		if !c.started || c.entry == 3 {
			continue
		}
		for _, n := range c.names {
			if !known[n] {
				callersOf[n]++
			}
		}
	}
	isCtxErr := func(err error) bool {
		return err != nil && (errors.Is(err, context.Canceled) || errors.Is(err, context.DeadlineExceeded) ||
			strings.Contains(err.Error(), "context canceled") || strings.Contains(err.Error(), "deadline exceeded"))
	}
	for _, c := range callers {
		if !c.started {
			continue
		}
		unknownName := !known[c.names[0]]
		if !allow {
			// (gate)
			switch {
			case c.entry == 3 && unknownName:
				if c.panicked == nil {
					w.Fail("gate", "lookups disabled: Secret(%q) of an undeclared name did not panic", c.names[0])
				}
			case c.entry == 3:
				if c.panicked != nil || c.handle == nil {
					w.Fail("gate", "Secret(%q) of a declared name failed: %v", c.names[0], c.panicked)
				}
			case unknownName || c.entry == 2:
				if !c.done {
					w.Fail("gate", "lookups disabled: caller %d did not return", c.id)
				} else if c.err == nil || c.panicked != nil {
					w.Fail("gate", "lookups disabled: entry %d for undeclared %q returned err=%v panic=%v, want an error", c.entry, c.names, c.err, c.panicked)
				}
			default:
				if c.err != nil || c.panicked != nil {
					w.Fail("gate", "entry %d for declared %q failed: %v %v", c.entry, c.names, c.err, c.panicked)
				}
			}
			continue
		}
		if c.panicked != nil {
			w.Fail("panic", "caller %d (entry %d, %q) panicked: %v", c.id, c.entry, c.names, c.panicked)
			continue
		}
		if c.entry == 3 {
			if unknownName && c.handle != nil && len(lookupReqs[c.names[0]]) == 0 {
				w.Fail("gate", "Secret(%q) returned a handle for a name nobody looked up", c.names[0])
			}
			continue
		}
		// (limit) A caller's wait is made of flights it leads and flights of
		// other callers it has joined. A flight led by a caller without a
		// deadline must carry the five-minute safety limit; a joined flight is
		// governed by its leader's context, and when that aborts the caller
		// may start over on its own. So: every request led by a no-deadline
		// caller ends within 5 min (+1 s); the caller returns within 1 s of
		// the end of the last request it was attached to; it is never left
		// waiting with no request in flight; and it leads at most one request
		// per name plus one per abort by somebody else's context.
		mine := fmt.Sprintf("lk%d-", c.id)
		end := s.Now()
		if c.done {
			end = c.retT
		}
		var lastEnd time.Duration = c.callT
		led, abortsByOthers, inFlight := 0, 0, false
		var shortLimit time.Duration = -1 // a led request cut off by a timeout before it was given any time at all (< 1 s; how long the safety limit is below five minutes is the implementation's business)
		for _, n := range c.names {
			for _, r := range lookupReqs[n] {
				if r.StartT > end || (r.End != 0 && r.EndT < c.callT) {
					continue // does not overlap the caller's interval
				}
				own := strings.HasPrefix(r.Task, mine)
				if r.End == 0 {
					inFlight = true
				} else if r.EndT > lastEnd {
					lastEnd = r.EndT
				}
				if own {
					led++
					dur := s.Now() - r.StartT
					if r.End != 0 {
						dur = r.EndT - r.StartT
					}
					if c.deadline == 0 && dur > 5*time.Minute+time.Second {
						w.Fail("limit", "caller %d (%q, no deadline) led a request that was still unanswered after %v: no five-minute safety limit", c.id, c.names, dur)
					}
					if c.deadline == 0 && r.End != 0 && isCtxErrText(r.Err) && dur < time.Second {
						shortLimit = dur
					}
				} else if isCtxErrText(r.Err) {
					abortsByOthers++
				}
			}
		}
		if led > len(c.names)+abortsByOthers {
			w.Fail("retry", "caller %d (%q) led %d requests although only %d flights it could have joined were aborted by another context (no automatic retry)", c.id, c.names, led, abortsByOthers)
		}
		// (no failure by proxy, second form) After somebody else's flight was
		// aborted the caller starts over on its own, and then it is a caller
		// like any other: with no deadline and a live context its own request
		// gets a safety limit of its own, not the nothing that is left of a
		// budget the other caller's flight used up. Only the zero-budget case
		// is judged: a shorter limit than five minutes is allowed.
		if c.done && shortLimit >= 0 && abortsByOthers > 0 && c.ctx.Err() == nil && c.err != nil {
			w.Fail("proxy", "caller %d (%q, no deadline, context live) joined a flight that another caller's context aborted, started over, and its own request was cut off after %v: failed because of the other caller's cancellation",
				c.id, c.names, shortLimit)
		}
		if c.done && c.retT > lastEnd+time.Second && !known[c.names[0]] {
			w.Fail("limit", "caller %d (%q) returned at t=%v, %v after the last request it could have waited for ended (t=%v)", c.id, c.names, c.retT, c.retT-lastEnd, lastEnd)
		}
		if !c.done && !inFlight {
			w.Fail("limit", "caller %d (%q) called at t=%v has not returned by t=%v although no request for it is in flight", c.id, c.names, c.callT, s.Now())
		}
		if !c.done {
			// (a joined caller whose own deadline has passed keeps waiting for
			// the shared flight: observed, but not part of the statement)
			if c.deadline > 0 && s.Now() > c.callT+c.deadline+time.Second {
				w.S.Probe("follower-outlived-own-deadline")
			}
			continue
		}
		// (no failure by proxy)
		// A context error with the caller's own context alive is legitimate
		// only as the caller's own safety limit, i.e. when a request it led
		// itself was the one that timed out (whatever the limit's length);
		// otherwise the failure was inherited from somebody else's flight.
		ledTimedOut := false
		for _, n := range c.names {
			for _, r := range lookupReqs[n] {
				if strings.HasPrefix(r.Task, mine) && isCtxErrText(r.Err) {
					ledTimedOut = true
				}
			}
		}
		if c.err != nil && isCtxErr(c.err) && c.ctx.Err() == nil && !ledTimedOut {
			w.Fail("proxy", "caller %d (%q) failed with %v at t=%v although its own context is live and no request it led had timed out (called t=%v): it was failed by another caller's context",
				c.id, c.names, c.err, c.retT, c.callT)
		}
		// (working handle)
		if c.err == nil {
			check := func(name string, val []byte) {
				dn, dv, ok := Decode(val)
				if !ok || dn != name || !w.Svc.EverServed(name, dv) {
					w.Fail("handle", "caller %d: handle for %q yields %q, not a value served for it", c.id, name, trunc(val))
				}
			}
			switch c.entry {
			case 0:
				if c.handle == nil {
					w.Fail("handle", "caller %d: LookupSecret(%q) returned neither handle nor error", c.id, c.names[0])
				} else {
					check(c.names[0], c.handle.Get())
				}
			case 1:
				check(c.names[0], []byte(c.upd.Get()))
			case 2:
				check("lk/one", []byte(c.applied.One))
				check("lk/two", c.applied.Two)
			}
			w.S.Probe("lookup-success")
		} else {
			w.S.Probe("lookup-failed")
		}
	}
	// (single-flight) and (no automatic retry)
	for _, n := range SortedKeys(lookupReqs) {
		rs := lookupReqs[n]
		if known[n] {
			w.Fail("requests", "declared secret %q was fetched again by a lookup", n)
		}
		if !allow {
			w.Fail("gate", "lookups disabled but the service received a lookup request for %q", n)
			continue
		}
		// overlap
		for i := range rs {
			for j := i + 1; j < len(rs); j++ {
				a, b := rs[i], rs[j]
				ae := a.End
				if ae == 0 {
					ae = 1 << 62
				}
				if b.Start < ae && a.Start < b.Start {
					w.Fail("singleflight", "two lookup requests for %q were in flight at once (stamps [%d,%d] and [%d,..])", n, a.Start, a.End, b.Start)
				}
			}
		}
		aborts := 0
		success := false
		for _, r := range rs {
			if isCtxErrText(r.Err) {
				aborts++
			}
			if r.Served != 0 {
				success = true
			}
		}
		if callersOf[n] == 1 && len(rs) > 1 {
			w.Fail("retry", "a single caller looked up %q but the service received %d requests (no automatic retry)", n, len(rs))
		}
		if len(rs) > callersOf[n]+aborts {
			w.Fail("retry", "%d callers looked up %q, %d requests were aborted by a context, but the service received %d requests", callersOf[n], n, aborts, len(rs))
		}
		if len(rs) > 1 {
			w.S.Probe("lookup-multi-request")
		}
		// (failure installs nothing) judged by what the callers were told:
		// if every caller that looked the name up got an error, the name
		// must not have been installed
		toldOK := false
		for _, c := range callers {
			if c.started && c.done && c.err == nil && c.panicked == nil && c.entry != 3 {
				for _, cn := range c.names {
					if cn == n {
						toldOK = true
					}
				}
			}
			if c.entry == 2 && c.done && c.err != nil {
				// Apply reports one joined error for several fields: a field
				// may have succeeded
				for _, cn := range c.names {
					if cn == n && !strings.Contains(c.err.Error(), fmt.Sprintf("%q", n)) {
						toldOK = true
					}
				}
			}
		}
		if !toldOK && allDone() {
			if h := st.Secret(n); h != nil {
				w.Fail("failed-install", "every caller that looked up %q was told it failed, yet Secret(%q) is non-nil: a failed lookup installed the secret", n, n)
			}
		}
		if !success && allDone() {
			if h := st.Secret(n); h != nil {
				w.Fail("failed-install", "every lookup of %q failed but Secret(%q) is non-nil", n, n)
			}
		}
		if toldOK && allDone() {
			if h := st.Secret(n); h == nil {
				w.Fail("handle", "a lookup of %q succeeded but Secret(%q) is nil", n, n)
			}
		}
	}
	if s.Failed() || !allDone() {
		return w
	}
	// (afterwards) the secret is polled and cached like any other
	var looked []string
	for _, n := range SortedKeys(lookupReqs) {
		rs := lookupReqs[n]
		for _, r := range rs {
			if r.Served != 0 {
				looked = append(looked, n)
				break
			}
		}
	}
	if len(looked) > 0 {
		w.Cache.mu.Lock()
		w.Cache.FailWrites = map[int]bool{} // the cache is healthy again
		w.Cache.mu.Unlock()
		w.Svc.Script = map[string][]Outcome{}
		w.Svc.Default = Outcome{}
		for _, n := range looked {
			w.Svc.Bump(n)
		}
		mark := w.StampNow()
		var rerr error
		rdone := false
		ctx, _ := w.Ctx(0)
		w.Spawn("refresh", func(*kernel.Task) { rerr = st.Refresh(ctx); w.Gate(); rdone = true })
		for i := 0; i < 500 && !rdone; i++ {
			_, en := s.Tickets()
			if len(en) == 0 {
				s.Advance(time.Second)
				continue
			}
			s.Release(en[t.Choice(len(en))])
		}
		if !rdone || rerr != nil {
			w.Fail("afterwards", "refresh after lookups failed: done=%v err=%v", rdone, rerr)
			return w
		}
		polled := map[string]bool{}
		for _, r := range w.Svc.ReqsSince(mark) {
			polled[r.Name] = true
		}
		doc, derr := ParseDoc(w.Cache.LastGood())
		for _, n := range looked {
			if !polled[n] {
				w.Fail("afterwards", "looked-up secret %q was not requested by the next poll", n)
			}
			av, ab := w.Svc.Active(n)
			if got := st.Secret(n).Get(); string(got) != string(ab) {
				w.Fail("afterwards", "looked-up secret %q was not brought to version %d by the next poll", n, av)
			}
			if derr != nil || doc[n] == nil || doc[n].Secret == nil || doc[n].Secret.Version != av {
				w.Fail("afterwards", "looked-up secret %q is missing from the cache (or stale) after the next poll", n)
			}
		}
	}
	return w
}

func isCtxErrText(e string) bool {
	return strings.Contains(e, "context canceled") || strings.Contains(e, "deadline exceeded")
}
