package storeworld

import (
	"bytes"
	"context"
	"fmt"
	"sync"
	"time"

	"github.com/tailscale/setec/client/setec"

	"verifsim/kernel"
)

// RunStoreRace is engine E4 for the client side: the same kinds of actors as
// the live scenario (readers, refreshers, lookups, updater users, a poller on
// a real ticker, Close) run freely, without the baton, in a binary built with
// the race detector. The verdict is the detector's plus the value oracles.
func RunStoreRace(s *kernel.Sim, prop string) *World {
	w := NewWorld(s, prop)
	defer w.Finish()
	t := w.T
	s.SetFree(true)
	w.Svc.Quiet = true
	names := w.DrawNames(t.Range(2, 4))
	nd := t.Range(1, len(names)-1)
	declared, pool := names[:nd], names[nd:]
	for _, n := range names {
		w.Svc.Create(n)
	}
	cache := setec.NewMemCache("")
	cfg := setec.StoreConfig{Client: w.Svc, Secrets: declared, AllowLookup: true, Cache: cache, Logf: func(string, ...any) {},
		PollInterval: 50 * time.Millisecond, ExpiryAge: []time.Duration{0, time.Second}[t.Choice(2)]}
	st, err := setec.NewStore(context.Background(), cfg)
	if err != nil {
		w.Fail("harness", "NewStore: %v", err)
		return w
	}
	nReaders, nRefresh, nLookup, nUpd := t.Range(1, 3), t.Range(1, 2), t.Range(0, 2), t.Range(0, 2)
	iters := t.Range(5, 30)
	closeEarly := t.Bool(1, 3)
	w.Tracef("race config declared=%q pool=%q readers=%d refreshers=%d lookups=%d updaters=%d iters=%d closeEarly=%v", declared, pool, nReaders, nRefresh, nLookup, nUpd, iters, closeEarly)
	var wg sync.WaitGroup
	var mu sync.Mutex
	var bad []string
	report := func(f string, a ...any) {
		mu.Lock()
		bad = append(bad, fmt.Sprintf(f, a...))
		mu.Unlock()
	}
	checkVal := func(who, n string, val []byte) {
		dn, dv, ok := Decode(val)
		if !ok || dn != n || !bytes.Equal(val, w.Svc.valueFor(n, dv)) {
			report("%s: handle for %q returned bytes that are not a whole served value: %q", who, n, trunc(val))
		}
	}
	for r := 0; r < nReaders; r++ {
		wg.Add(1)
		go func(r int) {
			defer wg.Done()
			hs := map[string]setec.Secret{}
			for i := 0; i < iters*4; i++ {
				n := names[(i+r)%len(names)]
				h := hs[n]
				if h == nil {
					h = st.Secret(n)
					if h == nil {
						continue
					}
					hs[n] = h
				}
				checkVal("reader", n, h.Get())
				if i%5 == 0 {
					// readers wake together right after the clock has moved on,
					// often across a second boundary
					time.Sleep(time.Duration(200+100*(i%4)) * time.Millisecond)
				}
			}
		}(r)
	}
	for r := 0; r < nRefresh; r++ {
		wg.Add(1)
		go func() {
			defer wg.Done()
			for i := 0; i < iters; i++ {
				st.Refresh(context.Background())
				time.Sleep(5 * time.Millisecond)
			}
		}()
	}
	for r := 0; r < nLookup; r++ {
		wg.Add(1)
		go func(r int) {
			defer wg.Done()
			for i := 0; i < iters && len(pool) > 0; i++ {
				n := pool[(i+r)%len(pool)]
				if h, err := st.LookupSecret(context.Background(), n); err == nil {
					checkVal("lookup", n, h.Get())
				}
			}
		}(r)
	}
	for r := 0; r < nUpd; r++ {
		wg.Add(1)
		go func(r int) {
			defer wg.Done()
			n := names[r%len(names)]
			u, err := setec.NewUpdater(context.Background(), st, n, func(b []byte) (string, error) { return string(b), nil })
			if err != nil {
				return
			}
			var inner sync.WaitGroup
			for g := 0; g < 2; g++ {
				inner.Add(1)
				go func() {
					defer inner.Done()
					for i := 0; i < iters*2; i++ {
						checkVal("updater", n, []byte(u.Get()))
					}
				}()
			}
			inner.Wait()
		}(r)
	}
	if closeEarly {
		wg.Add(1)
		go func() {
			defer wg.Done()
			time.Sleep(60 * time.Millisecond)
			st.Close()
		}()
	}
	wg.Wait()
	if !closeEarly {
		st.Close()
	}
	for _, b := range bad {
		w.Fail("read-value", "%s", b)
		break
	}
	w.Ops = iters
	return w
}
