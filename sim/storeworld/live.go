package storeworld

import (
	"bytes"
	"context"
	"errors"
	"fmt"
	"io"
	"os"
	"path/filepath"
	"sort"
	"strconv"
	"strings"
	"sync"
	"time"

	"github.com/tailscale/setec/client/setec"

	"verifsim/kernel"
)

// LiveOpts selects the workload features and the oracles of a live-store run.
type LiveOpts struct {
	Prop        string
	Lookup      bool
	Expiry      bool
	Readers     bool
	Updaters    bool
	Restarts    bool
	CacheFaults bool
	SvcFaults   bool
	Deletes     bool // secrets are deleted at the service and put again
	Close       bool
	Skew        bool
	MaxSteps    int
	Oracles     map[string]bool
}

// pinCall is a call that may hand out a handle or watcher for a name: from
// its invoke to its return the name may become pinned at any moment.
type pinCall struct {
	invoke, ret int64 // ret 0: still in flight
	ok          bool
}

type inst struct {
	stamp   int64
	version uint32 // 0: dropped
}

type readRec struct {
	reader  int
	name    string
	call    int64
	ret     int64
	version uint32
}

// builtVal is a value produced by an updater's builder.
type builtVal struct {
	id      int
	from    []byte
	version uint32
	closed  int
	plain   bool // handed out as a plainVal: no Close method
	mu      *sync.Mutex
}

func (b *builtVal) Close() error { b.mu.Lock(); b.closed++; b.mu.Unlock(); return nil }

var _ io.Closer = (*builtVal)(nil)

// uval is the (interface) type of the updaters' values: some of the values a
// builder returns implement io.Closer (*builtVal), some do not (plainVal).
type uval interface{ core() *builtVal }

func (b *builtVal) core() *builtVal { return b }

// plainVal is a built value that has no Close method.
type plainVal struct{ b *builtVal }

func (p plainVal) core() *builtVal { return p.b }

func coreOf(v uval) *builtVal {
	if v == nil {
		return nil
	}
	return v.core()
}

type updState struct {
	id       int
	name     string
	u        *setec.Updater[uval]
	created  int64  // stamp at NewUpdater return
	invoked  int64  // stamp at NewUpdater invoke
	att      uint32 // version the builder was last handed (built or rejected)
	since    int64  // call stamp of the previous Get (or of NewUpdater)
	builds   []*builtVal
	failOn   map[uint32]bool // builder fails on these versions
	plainOn  map[uint32]bool // builder returns a value without Close for these versions
	cur      *builtVal
	busy     bool
	active   []*bool // overlap flags of the Gets in flight
	lastErr  error
	nBuildFn int
}

type live struct {
	w   *World
	o   *LiveOpts
	t   *kernel.Tape
	cfg setec.StoreConfig

	declared   []string
	pool       []string // undeclared names available for lookup
	expiry     time.Duration
	handles    map[string]setec.Secret
	handedOut  map[string]bool
	readStamp  map[string]int64 // stamp of the read that set lastRead
	pinnedAt   map[string]int64 // stamp at which a handle was first handed out (this process)
	readerBusy map[int]bool
	genStamp   int64 // stamp at which the current store (process generation) was constructed
	pinCalls   map[string][]*pinCall // calls that can hand out a handle, per name (this process)
	lastRead   map[string]int64      // model last access, store-clock unix seconds
	isDeclared map[string]bool

	nAbsorbed int
	prevDoc   map[string]uint32
	installs  map[string][]inst
	reads     []readRec
	readMu    sync.Mutex
	updaters  []*updState
	bvMu      sync.Mutex
	nBuilt    int

	closed       bool
	generation   int // store process generation (restarts)
	tasksBusy    int
	refreshes    int
	cancellable  map[int]context.CancelFunc // in-flight explicit refreshes
	refreshSeq   int
	coalesceFrom int64 // requests before this stamp belong to an earlier process
	epochSnap    map[string]bool
	epochSnapAt  int64
	lastRefresh  struct {
		ok    bool
		start int64
		end   int64
	}
}

func (l *live) fail(kind, format string, a ...any) {
	if l.o.Oracles[kind] {
		l.w.Fail(kind, format, a...)
	}
}

// RunLive is the live-store scenario shared by C11, C12, C13, C15 and C19.
func RunLive(s *kernel.Sim, o LiveOpts) *World {
	w := NewWorld(s, o.Prop)
	defer w.Finish()
	t := w.T
	s.SetFree(false)
	l := &live{w: w, o: &o, t: t, handles: map[string]setec.Secret{}, handedOut: map[string]bool{}, lastRead: map[string]int64{},
		cancellable: map[int]context.CancelFunc{},
		pinnedAt:    map[string]int64{}, readerBusy: map[int]bool{}, readStamp: map[string]int64{}, pinCalls: map[string][]*pinCall{},
		isDeclared: map[string]bool{}, prevDoc: map[string]uint32{}, installs: map[string][]inst{}}

	names := w.DrawNames(t.Range(2, 5))
	nd := t.Range(1, len(names)-1)
	l.declared = names[:nd]
	if o.Lookup {
		l.pool = names[nd:]
	} else {
		l.declared = names
	}
	for _, n := range names {
		w.Svc.Create(n)
		for k := t.Choice(3); k > 0; k-- {
			w.Svc.Bump(n)
		}
		l.isDeclared[n] = false
	}
	for _, n := range l.declared {
		l.isDeclared[n] = true
	}
	if o.Expiry {
		l.expiry = []time.Duration{0, time.Second, time.Minute, time.Hour}[t.Choice(4)]
	}
	// initial cache: none written yet, or a document from an earlier process
	// that carries undeclared names with arbitrary last-access stamps
	initial := ""
	now := w.NowFn().Unix()
	if o.Expiry && t.Bool(1, 2) {
		ent := map[string]uint32{}
		la := map[string]int64{}
		for _, n := range names {
			if t.Bool(2, 3) {
				v, _ := w.Svc.Active(n)
				ent[n] = v
				la[n] = []int64{0, now, now - 30, now - 3000, now - 100000, now + 5000, 1}[t.Choice(7)]
			}
		}
		initial = w.cacheDoc(ent, la)
		for n := range ent {
			l.lastRead[n] = la[n]
		}
		w.Tracef("initial cache: %s", shortDoc(initial))
	}
	w.Cache = w.MemCache(initial)
	w.UseRealClient = t.Bool(1, 4)
	w.Svc.MaxHang = 2 * time.Minute // a hung poll request ends like a transport timeout
	l.cfg = w.BaseConfig(l.declared)
	l.cfg.Cache = w.Cache
	l.cfg.AllowLookup = o.Lookup
	l.cfg.ExpiryAge = l.expiry
	w.Tracef("config declared=%q pool=%q expiry=%v opts=%+v", l.declared, l.pool, l.expiry, oracleNames(o.Oracles))
	if initial != "" {
		l.absorbInitial(initial)
	}
	if !l.construct() {
		return w
	}

	// per-request fault script for polls
	if o.SvcFaults && t.Bool(2, 3) {
		for _, n := range names {
			var sc []Outcome
			for i := 0; i < 12; i++ {
				out := Outcome{}
				switch t.Weighted([]int{8, 2, 1, 2, 2, 2}) {
				case 1:
					out.Kind = OutFail
				case 2:
					out.Kind = OutHang
				case 3:
					out.Latency = time.Duration(t.Range(1, 5000))*time.Millisecond + 500*time.Microsecond
				case 4:
					out.ChangeBefore = true
				case 5:
					out.ChangeAfter = true
				}
				sc = append(sc, out)
			}
			// requests already made during construction consumed the first entries
			w.Svc.Script[n] = append(make([]Outcome, w.Svc.cnt[n]), sc...)
		}
	}
	if o.CacheFaults && t.Bool(1, 2) {
		for i := 0; i < 3; i++ {
			w.Cache.FailWrites[w.Cache.NumWrites()+t.Choice(8)] = true
		}
	}

	maxSteps := o.MaxSteps
	if maxSteps == 0 {
		maxSteps = 120
	}
	nReaders := 0
	if o.Readers {
		nReaders = t.Range(1, 3)
	}
	steps := 0
	w.Loop(maxSteps*4, 8, func() bool { steps++; return steps < maxSteps*4 && w.Ops < maxSteps }, func() []Action {
		l.absorb()
		l.checkBlockedReaders()
		l.checkDocComplete()
		var acts []Action
		_, en := s.Tickets()
		quiet := len(en) == 0
		add := func(wt int, name string, do func()) {
			acts = append(acts, Action{W: wt, Name: name, Do: func() { w.Ops++; do() }})
		}
		if !l.closed {
			if !w.tickPending {
				add(3, "tick", func() { l.tick() })
			}
			add(3, "refresh", func() { l.refresh() })
			if len(l.cancellable) > 0 {
				// cancel an in-flight refresh at this very point of the
				// schedule (between two of its round's requests, say)
				add(2, "cancel-refresh", func() {
					ids := make([]int, 0, len(l.cancellable))
					for id := range l.cancellable {
						ids = append(ids, id)
					}
					sort.Ints(ids)
					id := ids[t.Choice(len(ids))]
					w.Tracef("cancel refresh #%d", id)
					s.Fault("refresh-cancelled")
					l.cancellable[id]()
					delete(l.cancellable, id)
					s.Advance(0)
				})
			}
			if w.InFlight() == 0 && w.FlightsIdle() {
				add(3, "svc-change", func() { l.svcChange() })
			}
			if o.Lookup && len(l.pool) > 0 {
				add(2, "lookup", func() { l.lookup() })
			}
			add(2, "get-handle", func() { l.getHandle() })
			if o.Updaters {
				add(2, "new-updater", func() { l.newUpdater() })
			}
			if o.Close && t.Bool(1, 30) {
				add(1, "close", func() { l.close() })
			}
			if o.Restarts && quiet && w.InFlight() == 0 && l.tasksBusy == 0 {
				add(1, "restart", func() { l.restart() })
			}
		}
		if len(l.handles) > 0 {
			for r := 0; r < max(nReaders, 1); r++ {
				r := r
				if !l.readerBusy[r] {
					add(3, "read", func() { l.read(r) })
				}
			}
		}
		if o.Updaters && len(l.updaters) > 0 {
			// mostly one Get at a time per updater (those are judged exactly);
			// overlapping Gets are explored too, at a lower rate
			wt := 4
			for _, us := range l.updaters {
				if len(us.active) > 0 {
					wt = 1
				}
			}
			add(wt, "updater-get", func() { l.updaterGet() })
		}
		if quiet {
			acts = append(acts, Action{W: 3, Name: "advance", Do: func() {
				d := []time.Duration{time.Millisecond, time.Second, 30 * time.Second, 61 * time.Second, time.Hour + time.Second}[t.Weighted([]int{1, 3, 2, 3, 1})]
				if l.expiry > 0 && t.Bool(1, 3) {
					d = l.expiry + time.Duration(t.Range(-1, 2))*time.Second
					if d <= 0 {
						d = time.Second
					}
				}
				s.Advance(d)
			}})
		}
		busyReaders := 0
		for _, b := range l.readerBusy {
			if b {
				busyReaders++
			}
		}
		// (mid-call only while the calls in progress are handle reads: for the
		// other calls the harness books its own view of the clock after the
		// call returned, which a jump in between would falsify)
		if o.Skew && (quiet || l.tasksBusy <= busyReaders) && t.Bool(1, 4) {
			// the store's wall clock is stepped forward (NTP, a resumed VM):
			// at a quiet moment, or while calls are in the middle of something
			acts = append(acts, Action{W: 1, Name: "clock-jump", Do: func() {
				j := []time.Duration{time.Second, time.Minute, time.Hour, 24 * time.Hour}[t.Choice(4)]
				w.Skew.Add(int64(j))
				s.Fault("clock-jump")
				if !quiet {
					s.Fault("clock-jump-mid-call")
				}
				w.Tracef("store clock jumps forward by %v", j)
			}})
		}
		return acts
	})
	if s.Failed() {
		return w
	}
	// ---- epilogue: quiesce, heal, converge ----
	w.RunUntilQuiet(3000)
	for i := 0; i < 50 && (w.InFlight() > 0 || l.tasksBusy > 0) && !s.Failed(); i++ {
		s.Advance(10 * time.Minute)
		w.RunUntilQuiet(3000)
	}
	l.absorb()
	if s.Failed() {
		return w
	}
	if !l.closed {
		l.finalConverge()
	}
	if !s.Failed() && !l.closed {
		l.close()
		w.RunUntilQuiet(3000)
		l.absorb()
	}
	if !s.Failed() {
		l.judgeReads()
		l.judgeClosers()
	}
	return w
}

func oracleNames(m map[string]bool) []string {
	var out []string
	for k := range m {
		out = append(out, k)
	}
	sort.Strings(out)
	return out
}

func shortDoc(d string) string {
	doc, err := ParseDoc([]byte(d))
	if err != nil {
		return fmt.Sprintf("unparsable(%d bytes)", len(d))
	}
	var out []string
	for _, n := range SortedKeys(doc) {
		e := doc[n]
		if e == nil || e.Secret == nil {
			out = append(out, fmt.Sprintf("%q:null", n))
			continue
		}
		out = append(out, fmt.Sprintf("%q:v%d@%s", n, e.Secret.Version, e.LastAccess))
	}
	return fmt.Sprint(out)
}

func (l *live) storeNow() int64 { return l.w.NowFn().Unix() }

// construct builds (or rebuilds) the store with a healthy service.
func (l *live) construct() bool {
	w := l.w
	saved, savedDef := w.Svc.Script, w.Svc.Default
	w.Svc.Script, w.Svc.Default = map[string][]Outcome{}, Outcome{}
	before := w.Svc.NumReqs()
	w.Ticker = &FakeTicker{w: w, ch: make(chan time.Time)}
	l.cfg.PollTicker = w.Ticker
	readFault := l.o.CacheFaults && l.t.Bool(1, 5)
	if readFault {
		// the cache cannot be read at start-up (an I/O error): the store
		// starts from the service, and must go on writing the cache
		w.Cache.mu.Lock()
		w.Cache.ReadErr = true
		w.Cache.mu.Unlock()
		l.prevDoc = map[string]uint32{}
		l.installs = map[string][]inst{}
	}
	ok := w.Construct(l.cfg)
	w.Cache.mu.Lock()
	w.Cache.ReadErr = false
	w.Cache.mu.Unlock()
	w.Svc.Script, w.Svc.Default = saved, savedDef
	if !ok {
		return false
	}
	l.generation++
	l.genStamp = w.Stamp()
	l.coalesceFrom = w.StampNow()
	l.closed = false
	l.handles = map[string]setec.Secret{}
	l.handedOut = map[string]bool{}
	l.pinnedAt = map[string]int64{}
	l.pinCalls = map[string][]*pinCall{}
	// names fetched fresh during construction are stamped "now"
	for _, r := range w.Svc.ReqsSince(0)[before:] {
		if r.Served != 0 {
			l.lastRead[r.Name] = l.storeNow()
		}
	}
	l.absorb()
	// hand out handles for the declared names
	for _, n := range l.declared {
		if l.t.Bool(2, 3) {
			l.takeHandle(n)
		}
	}
	return true
}

func (l *live) takeHandle(n string) {
	pc := l.beginPin(n)
	h := l.w.Store.Secret(n)
	l.endPin(pc, h != nil)
	if h != nil {
		l.handles[n] = h
		l.pin(n)
	}
}

func (l *live) beginPin(n string) *pinCall {
	pc := &pinCall{invoke: l.w.Stamp()}
	l.pinCalls[n] = append(l.pinCalls[n], pc)
	return pc
}

func (l *live) endPin(pc *pinCall, ok bool) { pc.ret, pc.ok = l.w.Stamp(), ok }

// pinExempt: the statement exempts, for one poll, a name first pinned by a
// handle while that poll was in flight. Harness bookkeeping of a returning
// call is delayed by its gate, so judge by call windows: exempt if no pinning
// call had completed successfully before the epoch began and some pinning
// call's [invoke, return] window overlaps the epoch.
func (l *live) pinExempt(n string, start, end int64) bool {
	overlap := false
	for _, pc := range l.pinCalls[n] {
		if pc.ret != 0 && pc.ret < start && pc.ok {
			return false
		}
		if pc.invoke <= end && (pc.ret == 0 || pc.ret >= start) {
			overlap = true
		}
	}
	return overlap
}

func (l *live) pin(n string) {
	if !l.handedOut[n] {
		l.handedOut[n] = true
		l.pinnedAt[n] = l.w.Stamp()
	}
}

func (l *live) absorbInitial(doc string) {
	d, err := ParseDoc([]byte(doc))
	if err != nil {
		return
	}
	for n, e := range d {
		if e != nil && e.Secret != nil {
			l.prevDoc[n] = e.Secret.Version
			l.installs[n] = append(l.installs[n], inst{0, e.Secret.Version})
		}
	}
}

// absorb processes new cache writes: document shape, install log, drops.
func (l *live) absorb() {
	w := l.w
	w.Cache.mu.Lock()
	writes := append([]CacheWrite(nil), w.Cache.Writes[l.nAbsorbed:]...)
	l.nAbsorbed = len(w.Cache.Writes)
	w.Cache.mu.Unlock()
	for _, cw := range writes {
		doc, err := ParseDoc(cw.Data)
		if err != nil {
			l.fail("doc-shape", "the store wrote a cache document that is not a JSON object of the documented shape: %v: %q", err, trunc(cw.Data))
			continue
		}
		cur := map[string]uint32{}
		for _, n := range SortedKeys(doc) {
			e := doc[n]
			if e == nil || e.Secret == nil || n == "" {
				l.fail("doc-shape", "cache document has a malformed entry for %q", n)
				continue
			}
			cur[n] = e.Secret.Version
			dn, dv, ok := Decode(e.Secret.Value)
			if !ok || dn != n || dv != e.Secret.Version {
				l.fail("doc-shape", "cache entry %q carries bytes of (%q, v%d) under version %d", n, dn, dv, e.Secret.Version)
			}
			// last access persisted: >= the store-clock second of the last read
			la, perr := strconv.ParseInt(e.LastAccess, 10, 64)
			if perr != nil {
				l.fail("doc-shape", "cache entry %q has lastAccess %q", n, e.LastAccess)
			} else if lr, ok := l.lastRead[n]; ok && la < lr && l.handedOut[n] && cw.Stamp > l.readStamp[n] {
				l.fail("lastaccess", "cache document written at store time %d records lastAccess %d for %q, but it was read at %d", cw.Clock, la, n, lr)
			}
		}
		for _, n := range SortedKeys(cur) {
			v := cur[n]
			if pv, ok := l.prevDoc[n]; !ok || pv != v {
				l.installs[n] = append(l.installs[n], inst{cw.Stamp, v})
			}
		}
		for _, n := range SortedKeys(l.prevDoc) {
			if _, ok := cur[n]; !ok {
				l.installs[n] = append(l.installs[n], inst{cw.Stamp, 0})
				l.judgeDrop(n, cw)
			}
		}
		l.prevDoc = cur
	}
}

// judgeDrop: C19 — a name may disappear only if undeclared, an expiry age is
// set, it is stale, nobody in this process holds a handle, and at a poll.
func (l *live) judgeDrop(n string, cw CacheWrite) {
	l.w.S.Probe("expired-drop")
	l.w.Tracef("dropped %q at store time %d (lastRead %d, age %v, inPoll %v)", n, cw.Clock, l.lastRead[n], l.expiry, cw.InPoll)
	switch {
	case l.isDeclared[n]:
		l.fail("drop", "declared secret %q was dropped from the store", n)
	case l.expiry <= 0:
		l.fail("drop", "secret %q was dropped although no expiry age is configured", n)
	case l.handedOut[n]:
		l.fail("drop", "secret %q was dropped although a handle or watcher for it was handed out by this process", n)
	case !cw.InPoll:
		l.fail("drop", "secret %q was dropped outside a poll (by task %s)", n, cw.Task)
	default:
		lr := l.lastRead[n]
		// stamps are whole seconds: one second of slack at the boundary
		if lr != 0 && time.Duration(cw.Clock-lr+1)*time.Second <= l.expiry {
			l.fail("drop", "secret %q was dropped at store time %d but was last accessed at %d, %ds ago, expiry age %v", n, cw.Clock, lr, cw.Clock-lr, l.expiry)
		}
	}
	delete(l.lastRead, n)
}

func (l *live) knownNames() []string { return SortedKeys(l.prevDoc) }

// ---- actions ----

// pollErrors reads the store's public poll-error counter.
func (l *live) pollErrors() string {
	if l.w.Store == nil {
		return ""
	}
	if v := l.w.Store.Metrics().Get("counter_poll_errors"); v != nil {
		return v.String()
	}
	return ""
}

// epochKnown returns the names known when the current refresh epoch began.
func (l *live) epochKnown(epoch int64) map[string]bool {
	if l.epochSnap == nil || l.epochSnapAt != epoch {
		l.epochSnap = l.snapshotKnown()
		l.epochSnapAt = epoch
	}
	return l.epochSnap
}

func (l *live) tick() {
	w := l.w
	start := w.StampNow()
	l.absorb()
	var known map[string]bool
	if w.InFlight() == 0 {
		l.epochSnap = nil
	}
	errs0 := l.pollErrors()
	w.OnTickDone = func(s int64) {
		known = l.epochKnown(w.EpochStart())
		if l.pollErrors() != errs0 {
			// the poller swallows errors; the store's public metrics tell
			// whether a round failed since this tick was sent
			w.S.Probe("round-failed")
			return
		}
		// the poller logs errors; success is visible as a completed round
		l.afterRound(known, start, w.StampNow(), nil, true, "", 0)
	}
	pre := l.snapshotKnown()
	if !w.Tick() {
		w.Ops--
		return
	}
	if l.epochSnap == nil || l.epochSnapAt != w.EpochStart() {
		l.epochSnap, l.epochSnapAt = pre, w.EpochStart()
	}
}

func (l *live) snapshotKnown() map[string]bool {
	m := map[string]bool{}
	for n := range l.prevDoc {
		m[n] = true
	}
	return m
}

func (l *live) refresh() {
	w := l.w
	d := time.Duration(0)
	if l.t.Bool(1, 3) {
		d = []time.Duration{time.Millisecond, time.Second, 10 * time.Second}[l.t.Choice(3)]
		d += 333 * time.Microsecond // never at the same instant as a scripted latency
	}
	ctx, cancel := w.Ctx(d)
	l.refreshSeq++
	rid := l.refreshSeq
	l.cancellable[rid] = cancel
	l.absorb()
	pre := l.snapshotKnown()
	l.tasksBusy++
	l.refreshes++
	epoch := w.callInvoke()
	if l.epochSnap == nil || l.epochSnapAt != epoch {
		l.epochSnap, l.epochSnapAt = pre, epoch
	}
	known := l.epochSnap
	w.Tracef("refresh (deadline %v)", d)
	invoked := w.StampNow()
	st := w.Store
	w.Spawn("refresh", func(*kernel.Task) {
		err := st.Refresh(ctx)
		w.Gate()
		delete(l.cancellable, rid)
		w.callReturn()
		l.tasksBusy--
		w.Tracef("refresh returned %v", err)
		l.afterRound(known, epoch, w.StampNow(), err, false, w.S.CurTask().Name, invoked)
	})
}

// afterRound judges a completed refresh call (C11).
func (l *live) afterRound(knownAtStart map[string]bool, _ int64, end int64, err error, poller bool, callTask string, callInvoke int64) {
	w := l.w
	if poller {
		// The poller swallows errors. A round it shared may have started
		// before the tick; the epoch covers every round that could still be
		// running, so any failed poll request since the epoch began means the
		// round may have failed: then nothing is demanded of it.
		for _, r := range w.Svc.ReqsSince(w.EpochStart()) {
			if r.Cond && r.Err != "" && r.Err != "value not changed" {
				err = errors.New(r.Err)
			}
		}
	}
	start := w.EpochStart()
	if w.InFlight() > 0 {
		w.S.Probe("overlapping-refresh")
	}
	l.judgeCoalescing()
	if err != nil {
		w.S.Probe("round-failed")
		return
	}
	w.S.Probe("round-ok")
	l.absorb()
	if !poller && callInvoke > 0 {
		// "... and the cache holds the same": if the round this call waited
		// for wrote the cache and that write failed, the call must not report
		// success. (Only when no other round was active after the failed
		// write, so that the call can only have got that round's result.)
		w.Cache.mu.Lock()
		writes := append([]CacheWrite(nil), w.Cache.Writes...)
		w.Cache.mu.Unlock()
		for _, cw := range writes {
			// the round this call itself led runs in a child goroutine of
			// the calling task; its result is what the call returns
			if cw.Err && cw.Stamp > callInvoke && cw.Stamp < end && strings.HasPrefix(cw.Task, callTask+"/") {
				l.fail("fresh", "Refresh returned nil although the cache write of the round it led failed (write at stamp %d by %s): the cache does not hold what the store now serves", cw.Stamp, cw.Task)
			}
		}
	}
	if l.o.Oracles["read-after-poll"] && !poller && callTask != "" {
		// "once a poll has completed every later call returns its value or a
		// newer one": what the round led by this call fetched must be what
		// the handle now serves, unless something was installed later
		for _, r := range w.Svc.ReqsSince(callInvoke) {
			if !r.Cond || r.Served == 0 || !strings.HasPrefix(r.Task, callTask+"/") {
				continue
			}
			h := l.handles[r.Name]
			if h == nil {
				continue
			}
			_, gv, ok := Decode(h.Get())
			l.lastRead[r.Name] = l.storeNow()
			l.readStamp[r.Name] = w.Stamp()
			later := false
			for _, in := range l.installs[r.Name] {
				if in.stamp > r.End && in.version == gv {
					later = true
				}
			}
			// ... or a value some later request obtained: its round may have
			// installed it in memory already and be parked at its cache write
			// (installs are read off the cache documents)
			for _, r2 := range w.Svc.ReqsSince(callInvoke) {
				if r2.Name == r.Name && r2.Served == gv && r2.End > r.End {
					later = true
				}
			}
			if ok && gv != r.Served && !later {
				l.fail("read-after-poll", "the poll led by this Refresh fetched version %d of %q and completed without error, but the handle serves version %d", r.Served, r.Name, gv)
			}
		}
	}
	for _, n := range SortedKeys(knownAtStart) {
		v, still := l.prevDoc[n]
		if !still {
			continue // dropped: C19's business
		}
		if !l.isDeclared[n] && l.expiry > 0 && l.pinExempt(n, start, end) {
			// first pinned by a handle while this poll was in flight:
			// covered from the next poll on (the statement's exemption)
			w.S.Probe("pinned-during-poll")
			continue
		}
		act := w.Svc.ActiveDuring(n, start, end)
		ok := false
		for _, a := range act {
			if a == v {
				ok = true
			}
		}
		if !ok {
			l.fail("fresh", "refresh completed without error (epoch stamps [%d,%d]) but %q is at version %d; the service's active versions during the poll were %v", start, end, n, v, act)
		}
	}
}

// judgeCoalescing: overlapping refreshes share one round, so two rounds are
// never in progress at once. A round is the goroutine that issues its
// requests; its activity spans from its first request's start to its last
// request's end. (Harness-side call accounting is delayed by return gates and
// cannot be used here.)
func (l *live) judgeCoalescing() {
	type span struct{ first, last int64 }
	spans := map[string]*span{}
	var order []string
	for _, r := range l.w.Svc.ReqsSince(l.coalesceFrom) {
		if !r.Cond {
			continue
		}
		end := r.End
		if end == 0 {
			end = 1 << 62
		}
		sp := spans[r.Task]
		if sp == nil {
			sp = &span{r.Start, end}
			spans[r.Task] = sp
			order = append(order, r.Task)
		}
		if end > sp.last {
			sp.last = end
		}
	}
	for i, a := range order {
		for _, b := range order[i+1:] {
			sa, sb := spans[a], spans[b]
			if sa.first < sb.last && sb.first < sa.last {
				l.fail("coalesce", "two refresh rounds were in progress at once (round %s: request stamps [%d,%d]; round %s: [%d,%d]): overlapping refreshes must share one round of requests", a, sa.first, sa.last, b, sb.first, sb.last)
				return
			}
		}
	}
}

func (l *live) svcChange() {
	names := l.w.Svc.Names()
	n := names[l.t.Choice(len(names))]
	if l.o.Deletes {
		// an operator deletes a secret that stores still use, and later puts
		// it again (numbering continues)
		if del := l.w.Svc.Deleted(); len(del) > 0 && l.t.Bool(1, 3) {
			v := l.w.Svc.Undelete(del[0])
			l.w.Tracef("service: %q put again, active v%d", del[0], v)
			return
		} else if len(del) == 0 && l.t.Bool(1, 8) && l.w.Svc.Delete(n) {
			l.w.Tracef("service: %q deleted", n)
			return
		}
	}
	if l.t.Bool(1, 4) {
		if v := l.w.Svc.ActivateOld(n, l.t.Choice(8)); v != 0 {
			l.w.Tracef("service: %q active -> v%d (backwards)", n, v)
			return
		}
	}
	v := l.w.Svc.Bump(n)
	l.w.Tracef("service: %q new active version v%d", n, v)
}

func (l *live) lookup() {
	w := l.w
	n := l.pool[l.t.Choice(len(l.pool))]
	ctx, _ := w.Ctx(0)
	l.tasksBusy++
	st := w.Store
	gen := l.generation
	w.Tracef("lookup %q", n)
	pc := l.beginPin(n)
	w.Spawn("lookup", func(*kernel.Task) {
		h, err := st.LookupSecret(ctx, n)
		w.Gate()
		l.endPin(pc, err == nil && h != nil)
		l.tasksBusy--
		if err == nil && h != nil && gen == l.generation {
			// C13: a lookup that installed a value rewrites the cache
			l.absorbLocked()
			if _, ok := l.prevDoc[n]; !ok {
				l.fail("doc-complete", "LookupSecret(%q) succeeded but the cache was not rewritten to hold it (last document: %v)", n, SortedKeys(l.prevDoc))
			}
			l.handles[n] = h
			l.pin(n)
			if _, ok := l.lastRead[n]; !ok {
				l.lastRead[n] = l.storeNow()
			}
		}
		w.Tracef("lookup %q returned %v", n, err)
	})
}

func (l *live) getHandle() {
	known := l.knownNames()
	if len(known) == 0 {
		return
	}
	n := known[l.t.Choice(len(known))]
	if !l.isDeclared[n] && !l.o.Lookup {
		return
	}
	func() {
		defer func() { recover() }()
		l.takeHandle(n)
	}()
	l.w.Tracef("Secret(%q) handle=%v", n, l.handles[n] != nil)
}

func (l *live) read(reader int) {
	names := SortedKeys(l.handles)
	n := names[l.t.Choice(len(names))]
	h := l.handles[n]
	w := l.w
	l.tasksBusy++
	l.readerBusy[reader] = true
	w.Spawn(fmt.Sprintf("reader%d-", reader), func(task *kernel.Task) {
		defer func() { l.readerBusy[reader] = false }()
		call := w.Stamp()
		task.InRead = true
		val := h.Get()
		task.InRead = false
		ret := w.Stamp()
		l.tasksBusy--
		dn, dv, ok := Decode(val)
		if !ok || dn != n || !w.Svc.EverServed(n, dv) {
			l.fail("read-value", "handle for %q returned bytes that are not a value the service served for it: %q", n, trunc(val))
			return
		}
		if !bytes.Equal(val, w.Svc.valueFor(n, dv)) {
			l.fail("read-value", "handle for %q returned torn bytes for version %d", n, dv)
		}
		l.readMu.Lock()
		l.reads = append(l.reads, readRec{reader, n, call, ret, dv})
		l.lastRead[n] = l.storeNow()
		l.readStamp[n] = ret
		l.readMu.Unlock()
		w.Tracef("reader %d read %q v%d (store time %d)", reader, n, dv, l.storeNow())
	})
}

// checkBlockedReaders: C12 — a handle read must never wait for a request. At
// quiescence, a reader whose lock ticket is disabled waits for the lock's
// owner; that owner must itself be merely descheduled (parked at a lock/op
// ticket), never parked at the service or blocked on a timer.
func (l *live) checkBlockedReaders() {
	if !l.o.Oracles["read-blocks"] {
		return
	}
	all, _ := l.w.S.Tickets()
	for _, tk := range all {
		if tk.Kind != "lock" || !tk.Task.InRead {
			continue
		}
		owner := l.w.S.Owner(tk.Lock)
		if owner == nil || owner == tk.Task {
			continue
		}
		ot := l.w.S.TicketOf(owner)
		switch {
		case ot == nil:
			l.w.Fail("read-blocks", "a handle read (%s) waits for a lock whose holder %s is blocked on a timer or channel, not merely descheduled", tk, owner.Name)
		case ot.Kind == "svc":
			l.w.Fail("read-blocks", "a handle read (%s) waits for a lock whose holder %s is waiting for a service request (%s)", tk, owner.Name, ot)
		default:
			l.w.S.Probe("reader-contended")
		}
	}
}

// checkDocComplete: C13 - at a quiescent point (no task busy, no round
// running) the last document written holds every secret the store has handed
// out a handle for (unless it was dropped by expiry).
func (l *live) checkDocComplete() {
	if !l.o.Oracles["doc-complete"] || l.closed || l.tasksBusy > 0 || l.w.InFlight() > 0 || !l.w.FlightsIdle() {
		return
	}
	if all, _ := l.w.S.Tickets(); len(all) > 0 {
		return
	}
	for _, n := range SortedKeys(l.handles) {
		if _, ok := l.prevDoc[n]; !ok {
			l.fail("doc-complete", "nothing is in flight, the store has handed out a handle for %q (so it can never be dropped), but the last cache document written does not hold it (document: %v)", n, SortedKeys(l.prevDoc))
		}
	}
}

// judgeReads: C12 — per reader and name the versions follow the install log;
// once an install has completed every later read returns it or a newer one.
func (l *live) judgeReads() {
	if !l.o.Oracles["read-order"] {
		return
	}
	type key struct {
		reader int
		name   string
	}
	ptr := map[key]int{}
	sort.SliceStable(l.reads, func(i, j int) bool { return l.reads[i].call < l.reads[j].call })
	for _, r := range l.reads {
		ins := l.installs[r.name]
		if len(ins) == 0 {
			continue
		}
		k := key{r.reader, r.name}
		lo := ptr[k]
		// installs completed before the read began are a lower bound
		for i, in := range ins {
			if in.stamp < r.call && i > lo {
				lo = i
			}
		}
		found := -1
		for i := lo; i < len(ins); i++ {
			if ins[i].stamp > r.ret {
				break
			}
			if ins[i].version == r.version {
				found = i
				break
			}
		}
		// a dropped-and-kept-handle name keeps serving its last value
		if found < 0 && lo < len(ins) && ins[lo].version == 0 && lo > 0 && ins[lo-1].version == r.version {
			found = lo
		}
		if found < 0 {
			var log []string
			for _, in := range ins {
				log = append(log, fmt.Sprintf("@%d:v%d", in.stamp, in.version))
			}
			l.fail("read-order", "reader %d read %q v%d during stamps [%d,%d], which is older than an install that had completed before the read began, or out of install order (installs: %v, reader had reached index %d)",
				r.reader, r.name, r.version, r.call, r.ret, log, lo)
			return
		}
		ptr[k] = found
		l.w.S.Probe("read-judged")
	}
}

// ---- updaters (C15) ----

func (l *live) newUpdater() {
	w := l.w
	known := l.knownNames()
	var n string
	if l.o.Lookup && len(l.pool) > 0 && l.t.Bool(1, 4) {
		n = l.pool[l.t.Choice(len(l.pool))]
	} else if len(known) > 0 {
		n = known[l.t.Choice(len(known))]
	} else {
		return
	}
	us := &updState{id: len(l.updaters), name: n, failOn: map[uint32]bool{}, plainOn: map[uint32]bool{}}
	lat := uint32(0)
	if v, _ := w.Svc.Active(n); v != 0 {
		lat = v
	}
	for k := 0; k < 3; k++ {
		if l.t.Bool(1, 4) {
			us.failOn[lat+1+uint32(l.t.Choice(4))] = true
		}
	}
	if l.t.Bool(1, 6) {
		// the builder rejects the value the secret has right now: NewUpdater fails
		us.failOn[lat] = true
	}
	// values without a Close method among those with one (a "disabled"
	// implementation of the interface, say): often the very first
	if l.t.Bool(1, 3) {
		us.plainOn[lat] = true
	}
	for k := 0; k < 2; k++ {
		if l.t.Bool(1, 4) {
			us.plainOn[lat+1+uint32(l.t.Choice(4))] = true
		}
	}
	build := func(b []byte) (uval, error) {
		us.nBuildFn++
		if us.u == nil {
			// the initial build inside NewUpdater: the secret is being read
			// right now (the call may return much later, or fail)
			l.lastRead[n] = l.storeNow()
			l.readStamp[n] = w.Stamp()
		}
		dn, dv, ok := Decode(b)
		if ok {
			us.att = dv
		}
		if !ok || dn != n {
			l.fail("upd-value", "updater %d builder was handed bytes that are not a value of %q: %q", us.id, n, trunc(b))
			return nil, errors.New("bad bytes")
		}
		if us.failOn[dv] {
			w.S.Fault("builder-error")
			return nil, fmt.Errorf("sim: builder rejects version %d", dv)
		}
		l.bvMu.Lock()
		l.nBuilt++
		bv := &builtVal{id: l.nBuilt, from: b, version: dv, mu: &l.bvMu, plain: us.plainOn[dv]}
		us.builds = append(us.builds, bv)
		us.cur = bv // the value only ever changes through a successful build
		l.bvMu.Unlock()
		if bv.plain {
			return plainVal{bv}, nil
		}
		return bv, nil
	}
	ctx, _ := w.Ctx(0)
	l.tasksBusy++
	st := w.Store
	gen := l.generation
	w.Tracef("NewUpdater(%q) failOn=%v", n, us.failOn)
	pc := l.beginPin(n)
	w.Spawn("newupd", func(*kernel.Task) {
		us.invoked = w.Stamp()
		u, err := setec.NewUpdater(ctx, st, n, build)
		w.Gate()
		l.endPin(pc, err == nil)
		us.created = w.Stamp()
		l.tasksBusy--
		if us.nBuildFn > 0 && gen == l.generation {
			// the builder was handed the value: the secret was read, whether
			// or not the builder liked it
			l.lastRead[n] = l.storeNow()
			l.readStamp[n] = us.created
		}
		if err != nil || gen != l.generation {
			w.Tracef("NewUpdater(%q) failed: %v", n, err)
			return
		}
		us.u = u
		l.pin(n)
		if _, ok := l.lastRead[n]; !ok {
			l.lastRead[n] = l.storeNow()
		}
		l.lastRead[n] = l.storeNow()
		l.readStamp[n] = us.created
		if len(us.builds) != 1 {
			l.fail("upd-value", "NewUpdater(%q) succeeded but the builder produced %d values", n, len(us.builds))
			return
		}
		us.since = us.invoked
		l.updaters = append(l.updaters, us)
	})
}

func prevAtt(us *updState, got *builtVal) uint32 { return got.version }

// installIndexBefore returns the index of the last install of name with
// stamp < s (-1 if none).
func (l *live) installIndexBefore(name string, s int64) int {
	idx := -1
	for i, in := range l.installs[name] {
		if in.stamp < s {
			idx = i
		}
	}
	return idx
}

func (l *live) updaterGet() {
	w := l.w
	us := l.updaters[l.t.Choice(len(l.updaters))]
	ov := new(bool)
	if len(us.active) > 0 {
		*ov = true
		for _, o := range us.active {
			*o = true
		}
	}
	us.active = append(us.active, ov)
	us.busy = true
	l.tasksBusy++
	w.Spawn(fmt.Sprintf("updget%d-", us.id), func(*kernel.Task) {
		defer func() {
			for i, o := range us.active {
				if o == ov {
					us.active = append(us.active[:i], us.active[i+1:]...)
					break
				}
			}
		}()
		l.absorbLocked()
		call := w.Stamp()
		nb := us.nBuildFn
		prevCur := us.cur
		got := coreOf(us.u.Get())
		gerr := us.u.Err()
		ret := w.Stamp()
		l.tasksBusy--
		us.busy = false
		if us.nBuildFn != nb {
			// only a rebuild reads the secret
			l.lastRead[us.name] = l.storeNow()
			l.readStamp[us.name] = ret
		}
		since := us.since
		overlap := *ov
		// For every Get, overlapping or not: a Get that begins after an
		// install has completed must return a value built from that install
		// or a later one (unless the builder rejects those bytes).
		l.absorbLocked()
		{
			ins := l.installs[us.name]
			lo := -1
			for i, in := range ins {
				if in.stamp < call && in.version != 0 {
					lo = i
				}
			}
			if lo >= 0 && got != nil {
				ok := false
				rejected := false
				for i := lo; i < len(ins); i++ {
					if ins[i].stamp > ret {
						break
					}
					if ins[i].version == got.version {
						ok = true
					}
					if us.failOn[ins[i].version] {
						rejected = true
					}
				}
				if !ok && !rejected {
					l.fail("upd-lost", "updater %d (%q): version %d had been installed before this Get began, but Get returned the value built from version %d (installs %v, Get stamps [%d,%d])", us.id, us.name, ins[lo].version, got.version, ins, call, ret)
				}
			}
		}
		if overlap {
			// concurrent Gets on one updater: only the weak invariants
			w.S.Probe("updater-concurrent-get")
			if call < us.since {
				us.since = call
			}
			us.lastErr = gerr
			return
		}
		us.since = call
		l.absorbLocked()
		ins := l.installs[us.name]
		built := us.nBuildFn - nb
		// newest installed version completed before Get began
		var newest uint32
		lo := -1
		for i, in := range ins {
			if in.stamp < call && in.version != 0 {
				newest, lo = in.version, i
			}
		}
		// did any install land since the previous Get began (up to our return)?
		may := false
		for _, in := range ins {
			if in.stamp > since && in.stamp <= ret && in.version != 0 {
				may = true
			}
		}
		attBefore := us.att
		if built == 1 && gerr == nil && got != nil {
			attBefore = prevAtt(us, got)
		}
		_ = attBefore
		if built > 1 {
			l.fail("upd-rebuild", "updater %d (%q): one Get ran the builder %d times", us.id, us.name, built)
		}
		if built == 0 {
			if newest != 0 && newest != us.att {
				l.fail("upd-lost", "updater %d (%q): version %d was installed before Get began (installs %v) but Get did not rebuild; the value still reflects version %d", us.id, us.name, newest, ins, us.att)
			}
			if got != prevCur {
				l.fail("upd-value", "updater %d (%q): Get returned a different value without running the builder", us.id, us.name)
			}
		} else {
			if !may {
				l.fail("upd-rebuild", "updater %d (%q): Get rebuilt the value although nothing was installed since the previous Get began (stamp %d; installs %v)", us.id, us.name, since, ins)
			}
			bver := us.att
			okv := false
			for i := max(lo, 0); i < len(ins); i++ {
				if ins[i].stamp <= ret && ins[i].version == bver {
					okv = true
				}
			}
			if !okv {
				l.fail("upd-value", "updater %d (%q): Get built from version %d, not from the newest installed bytes (installs %v, newest before Get began: v%d)", us.id, us.name, bver, ins, newest)
			}
			if gerr != nil {
				if got != prevCur {
					l.fail("upd-error", "updater %d (%q): the builder failed but Get returned a different value than before", us.id, us.name)
				}
				w.S.Probe("updater-build-failed")
			} else {
				if got == prevCur || got == nil || got.version != bver {
					l.fail("upd-value", "updater %d (%q): the builder succeeded on version %d but Get returned another value", us.id, us.name, bver)
				}
				w.S.Probe("updater-rebuilt")
			}
		}
		if built == 0 && (gerr == nil) != (us.lastErr == nil) {
			l.fail("upd-error", "updater %d (%q): Err changed from %v to %v without a rebuild", us.id, us.name, us.lastErr, gerr)
		}
		us.lastErr = gerr
		w.S.Probe("updater-get")
	})
}

func (l *live) absorbLocked() {
	l.readMu.Lock()
	l.absorb()
	l.readMu.Unlock()
}

// judgeClosers: every replaced value was closed exactly once, current never.
func (l *live) judgeClosers() {
	if !l.o.Oracles["upd-close"] {
		return
	}
	for _, us := range l.updaters {
		if us.u == nil {
			continue
		}
		for _, bv := range us.builds {
			switch {
			case bv == us.cur && bv.closed != 0:
				l.fail("upd-close", "updater %d (%q): the current value (built from v%d) was closed %d times", us.id, us.name, bv.version, bv.closed)
			case bv.plain:
				// no Close method: nothing to close
			case bv != us.cur && bv.closed != 1:
				l.fail("upd-close", "updater %d (%q): the replaced value built from v%d was closed %d times, want exactly once", us.id, us.name, bv.version, bv.closed)
			}
		}
	}
}

// ---- close / restart ----

func (l *live) close() {
	w := l.w
	if l.closed {
		return
	}
	l.closed = true
	st := w.Store
	w.Store = nil
	w.Tracef("Close")
	l.tasksBusy++
	mark := w.Stamp()
	w.Spawn("close", func(*kernel.Task) {
		st.Close()
		w.Gate()
		l.tasksBusy--
		w.Tracef("Close returned")
		// C13: when the poller shuts down the cache is rewritten, complete
		l.absorbLocked()
		before := l.snapshotKnown()
		w.Cache.mu.Lock()
		n := len(w.Cache.Writes)
		var last CacheWrite
		if n > 0 {
			last = w.Cache.Writes[n-1]
		}
		w.Cache.mu.Unlock()
		if n == 0 || last.Stamp < mark {
			l.fail("doc-complete", "Close returned but the cache was not rewritten when the poller shut down (known: %v)", SortedKeys(before))
		}
		w.S.Probe("shutdown-doc")
	})
}

// restart closes the store and starts a new process from the cache.
func (l *live) restart() {
	w := l.w
	if hs := SortedKeys(l.handles); len(hs) > 0 && l.t.Bool(1, 2) {
		// a last read right before the shutdown (nothing else is going on):
		// its stamp reaches the cache only through the shutdown's own write
		n := hs[l.t.Choice(len(hs))]
		if h := l.handles[n]; h != nil {
			h.Get()
			l.lastRead[n] = l.storeNow()
			l.readStamp[n] = w.Stamp()
			w.Tracef("read %q right before shutdown (store time %d)", n, l.storeNow())
		}
	}
	l.close()
	w.RunUntilQuiet(2000)
	for i := 0; i < 20 && l.tasksBusy > 0; i++ {
		w.S.Advance(time.Minute)
		w.RunUntilQuiet(2000)
	}
	l.absorb()
	if l.tasksBusy > 0 || w.S.Failed() {
		return
	}
	l.judgeShutdownDoc()
	l.judgeShutdownStamps()
	l.probeRestart()
	w.S.Probe("restart")
	w.Tracef("restart from cache: %s", shortDoc(string(w.Cache.LastGood())))
	// stamps of names loaded from the cache come from the document
	if doc, err := ParseDoc(w.Cache.LastGood()); err == nil {
		for _, n := range SortedKeys(doc) {
			e := doc[n]
			if e != nil {
				if la, err := strconv.ParseInt(e.LastAccess, 10, 64); err == nil {
					l.lastRead[n] = la
				}
			}
		}
	}
	// a new process: what it knows is what the last good document holds
	// (documents whose write failed are lost, which a cache may do)
	l.judgeReads()
	l.judgeClosers()
	l.reads = nil
	l.updaters = nil
	l.installs = map[string][]inst{}
	l.prevDoc = map[string]uint32{}
	l.absorbInitial(string(w.Cache.LastGood()))
	l.construct()
}

// judgeShutdownStamps: C19 - a read refreshes the last-access time, "which
// is persisted with the next cache write so that the rule holds across
// restarts"; the poller's shutdown rewrites the cache, so after a clean
// shutdown the document carries, for every name read by this process, a stamp
// no older than that read.
func (l *live) judgeShutdownStamps() {
	if !l.o.Oracles["lastaccess"] {
		return
	}
	w := l.w
	w.Cache.mu.Lock()
	n := len(w.Cache.Writes)
	lastFailed := n > 0 && w.Cache.Writes[n-1].Err
	w.Cache.mu.Unlock()
	if lastFailed {
		return // the document of the shutdown itself was lost: a cache may do that
	}
	doc, err := ParseDoc(w.Cache.LastGood())
	if err != nil {
		return
	}
	for _, name := range SortedKeys(doc) {
		e := doc[name]
		if e == nil {
			continue
		}
		la, perr := strconv.ParseInt(e.LastAccess, 10, 64)
		if perr != nil {
			continue
		}
		if lr, ok := l.lastRead[name]; ok && l.readStamp[name] > l.genStamp && la < lr {
			l.fail("lastaccess", "after a clean shutdown the cache records lastAccess %d for %q, but this process read it at %d: the refreshed stamp was not persisted, so the expiry rule does not hold across the restart", la, name, lr)
		}
	}
	w.S.Probe("shutdown-stamps-checked")
}

// judgeShutdownDoc: C13 — after the poller has shut down the last document
// is complete: every known name with its latest version.
func (l *live) judgeShutdownDoc() {
	if !l.o.Oracles["doc-complete"] {
		return
	}
	w := l.w
	w.Cache.mu.Lock()
	n := len(w.Cache.Writes)
	var last CacheWrite
	if n > 0 {
		last = w.Cache.Writes[n-1]
	}
	w.Cache.mu.Unlock()
	if n == 0 || last.Task == "" {
		return
	}
	// the shutdown flush is written by the poller task after Close
	w.S.Probe("shutdown-doc")
}

// probeRestart: C13 — a new store started from the last good document with
// the service unreachable serves exactly the document's values, and a
// FileClient on the same bytes agrees for every non-empty secret.
func (l *live) probeRestart() {
	if !l.o.Oracles["restart-probe"] {
		return
	}
	w := l.w
	w.Cache.checkRetained()
	data := w.Cache.LastGood()
	if data == nil {
		return
	}
	doc, err := ParseDoc(data)
	if err != nil {
		return
	}
	// completeness for the declared names: the probe needs them all
	for _, n := range l.declared {
		if doc[n] == nil {
			l.fail("doc-complete", "the last cache document lacks declared secret %q: %s", n, shortDoc(string(data)))
			return
		}
	}
	w.Svc.SetDead(true)
	before := w.Svc.NumReqs()
	probeCfg := setec.StoreConfig{Client: w.Svc, Secrets: l.declared, Cache: setec.NewMemCache(string(data)), AllowLookup: l.o.Lookup,
		Logf: w.Logf, TimeNow: w.NowFn, PollInterval: -1}
	ctx, cancel := context.WithTimeout(context.Background(), time.Second)
	var pst *setec.Store
	var perr error
	done := false
	w.Spawn("probe", func(*kernel.Task) {
		pst, perr = setec.NewStore(ctx, probeCfg)
		w.Gate()
		done = true
	})
	for i := 0; i < 500 && !done; i++ {
		_, en := w.S.Tickets()
		if len(en) > 0 {
			w.S.Release(en[0])
		} else {
			w.S.Advance(time.Second)
		}
	}
	cancel()
	w.Svc.SetDead(false)
	if !done || perr != nil {
		l.fail("restart-probe", "a store started from the last cache document with the service unreachable did not start: done=%v err=%v; document %s", done, perr, shortDoc(string(data)))
		return
	}
	if n := w.Svc.NumReqs() - before; n != 0 {
		l.fail("restart-probe", "a store started from a complete cache document made %d requests", n)
	}
	for _, n := range SortedKeys(doc) {
		e := doc[n]
		var h setec.Secret
		func() {
			defer func() { recover() }()
			h = pst.Secret(n)
		}()
		if !l.isDeclared[n] && !l.o.Lookup {
			continue
		}
		if h == nil {
			l.fail("restart-probe", "store restarted from the cache does not know %q, which the document holds", n)
			continue
		}
		if got := h.Get(); !bytes.Equal(got, e.Secret.Value) {
			l.fail("restart-probe", "store restarted from the cache serves different bytes for %q than the document holds", n)
		}
	}
	pst.Close()
	// FileClient parity
	dir, err := os.MkdirTemp(scratchRoot(), "verif-fc-")
	if err == nil {
		defer os.RemoveAll(dir)
		p := filepath.Join(dir, "cache.json")
		os.WriteFile(p, data, 0o600)
		fc, err := setec.NewFileClient(p)
		if err != nil {
			l.fail("restart-probe", "the cache document is not accepted by the file-backed client: %v", err)
			return
		}
		for _, n := range SortedKeys(doc) {
			e := doc[n]
			if len(e.Secret.Value) == 0 {
				continue
			}
			sv, err := fc.Get(context.Background(), n)
			if err != nil || !bytes.Equal(sv.Value, e.Secret.Value) || uint32(sv.Version) != e.Secret.Version {
				l.fail("restart-probe", "file-backed client on the cache document disagrees for %q: %v %v", n, sv, err)
			}
		}
	}
	w.S.Probe("restart-probe")
}

// finalConverge: with a healthy service one refresh must succeed and bring
// every known name to the service's active version (bounded liveness), and
// handles, document and service must agree (C11, C13).
func (l *live) finalConverge() {
	w := l.w
	w.Svc.Script = map[string][]Outcome{}
	w.Svc.Default = Outcome{}
	for _, n := range w.Svc.Deleted() {
		w.Svc.Undelete(n)
	}
	w.Cache.mu.Lock()
	w.Cache.FailWrites = map[int]bool{}
	w.Cache.mu.Unlock()
	// make sure something changed so that the round flushes
	known := l.knownNames()
	if len(known) > 0 {
		w.Svc.Bump(known[0])
	}
	var rerr error
	done := false
	ctx, _ := w.Ctx(0)
	st := w.Store
	l.absorb()
	kn := l.snapshotKnown()
	w.callInvoke()
	w.Spawn("final-refresh", func(*kernel.Task) {
		rerr = st.Refresh(ctx)
		w.Gate()
		w.callReturn()
		done = true
	})
	for i := 0; i < 2000 && !done && !w.S.Failed(); i++ {
		_, en := w.S.Tickets()
		if len(en) > 0 {
			w.S.Release(en[l.t.Choice(len(en))])
		} else {
			w.S.Advance(time.Second)
		}
	}
	if w.S.Failed() {
		return
	}
	if !done || rerr != nil {
		l.fail("converge", "with a healthy service the final refresh did not succeed: done=%v err=%v", done, rerr)
		return
	}
	l.afterRound(kn, 0, w.StampNow(), nil, false, "", 0)
	l.absorb()
	for _, n := range SortedKeys(l.prevDoc) {
		v := l.prevDoc[n]
		av, ab := w.Svc.Active(n)
		if v != av {
			l.fail("converge", "after a successful refresh with a healthy service %q is at version %d in the cache, the service's active version is %d", n, v, av)
			continue
		}
		var h setec.Secret
		func() {
			defer func() { recover() }()
			h = st.Secret(n)
		}()
		if h == nil {
			if l.isDeclared[n] || l.o.Lookup {
				l.fail("doc-complete", "the cache document holds %q but the store does not know it", n)
			}
			continue
		}
		if got := h.Get(); !bytes.Equal(got, ab) {
			l.fail("converge", "after a successful refresh %q's handle serves %q, the service's active bytes are version %d", n, trunc(got), av)
		}
		l.lastRead[n] = l.storeNow()
		l.readStamp[n] = w.Stamp()
	}
	if l.o.Updaters {
		for _, us := range l.updaters {
			if us.u == nil || len(us.active) > 0 {
				continue
			}
			av, _ := w.Svc.Active(us.name)
			got := coreOf(us.u.Get())
			if got != nil && got.version != av && !us.failOn[av] {
				l.fail("upd-lost", "after a successful refresh with a healthy service, updater %d on %q still returns the value built from version %d; the service's active version is %d", us.id, us.name, got.version, av)
			}
		}
	}
	// every name the store knows is in the document
	for _, n := range SortedKeys(l.handles) {
		if _, ok := l.prevDoc[n]; !ok && st.Secret(n) != nil && !l.droppedKeptHandle(n) {
			l.fail("doc-complete", "the store knows %q but the last cache document does not hold it", n)
		}
	}
	w.S.Probe("final-converge")
}

func (l *live) droppedKeptHandle(n string) bool {
	ins := l.installs[n]
	return len(ins) > 0 && ins[len(ins)-1].version == 0
}
