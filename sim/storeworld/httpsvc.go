package storeworld

import (
	"bytes"
	"context"
	"encoding/json"
	"errors"
	"io"
	"net/http"

	"github.com/tailscale/setec/client/setec"
	"github.com/tailscale/setec/types/api"

	"verifsim/kernel"
)

// RealClient returns the real setec.Client wired to the scripted service
// through an in-process transport: requests are decoded as the server would,
// answered from the Svc's state with the documented status codes, and a
// successful response's body is delivered through a reader that honours the
// request context (a cancellation can land after the headers, mid-body).
func (w *World) RealClient() setec.StoreClient {
	return setec.Client{Server: "http://setec.sim", DoHTTP: w.doHTTP}
}

type ctxBody struct {
	w    *World
	ctx  context.Context
	r    *bytes.Reader
	once bool
}

func (b *ctxBody) Read(p []byte) (int, error) {
	if !b.once {
		b.once = true
		// the body trickles in: a park point, withdrawn if the context ends
		if ok := b.w.S.Park("body", "response body", nil, nil, b.ctx.Done()); !ok {
			b.w.S.Fault("body-read-cancelled")
			return 0, b.ctx.Err()
		}
	}
	if err := b.ctx.Err(); err != nil {
		return 0, err
	}
	return b.r.Read(p)
}

func (b *ctxBody) Close() error { return nil }

func (w *World) doHTTP(req *http.Request) (*http.Response, error) {
	body, _ := io.ReadAll(req.Body)
	var gr api.GetRequest
	if err := json.Unmarshal(body, &gr); err != nil || req.URL.Path != "/api/get" {
		return status(req, 400, "bad request"), nil
	}
	cond := gr.UpdateIfChanged && gr.Version != 0
	sv, err := w.Svc.request(req.Context(), gr.Name, cond, uint32(gr.Version))
	switch {
	case err == nil:
		b, _ := json.Marshal(sv)
		return &http.Response{StatusCode: 200, Status: "200 OK", Header: http.Header{"Content-Type": {"application/json"}},
			Body: &ctxBody{w: w, ctx: req.Context(), r: bytes.NewReader(b)}, Request: req}, nil
	case errors.Is(err, api.ErrNotFound):
		return status(req, 404, "not found"), nil
	case errors.Is(err, api.ErrValueNotChanged):
		return status(req, 304, ""), nil
	case errors.Is(err, context.Canceled), errors.Is(err, context.DeadlineExceeded):
		return nil, err // what a transport reports when the request's context ends
	}
	// some other failure: whatever a struggling server or a proxy in front of
	// it might answer, with the hints such answers carry
	w.failN++
	switch kernel.Hash64(w.T.Seed, "http-failure/"+gr.Name, uint64(w.failN)) % 6 {
	case 0:
		r := status(req, 503, "service unavailable")
		r.Header.Set("Retry-After", "1")
		return r, nil
	case 1:
		r := status(req, 429, "too many requests")
		r.Header.Set("Retry-After", "2")
		return r, nil
	case 2:
		return status(req, 502, "bad gateway"), nil
	case 3:
		r := status(req, 503, "service unavailable")
		r.Header.Set("Retry-After", "Wed, 21 Oct 2099 07:28:00 GMT")
		return r, nil
	}
	return status(req, 500, "internal error"), nil
}

func status(req *http.Request, code int, text string) *http.Response {
	return &http.Response{StatusCode: code, Status: http.StatusText(code), Header: http.Header{},
		Body: io.NopCloser(bytes.NewReader([]byte(text))), Request: req}
}

// obsClient sits between the store and its client and corrects the request
// log to what the store actually received: through the real client a request
// the service answered can still fail on the way back (the body read is
// cancelled), and then nothing was "served" as far as the store is concerned.
type obsClient struct {
	w     *World
	inner setec.StoreClient
}

func (o obsClient) Get(ctx context.Context, name string) (*api.SecretValue, error) {
	sv, err := o.inner.Get(ctx, name)
	o.w.Svc.clientResult(name, err)
	return sv, err
}

func (o obsClient) GetIfChanged(ctx context.Context, name string, old api.SecretVersion) (*api.SecretValue, error) {
	sv, err := o.inner.GetIfChanged(ctx, name, old)
	o.w.Svc.clientResult(name, err)
	return sv, err
}

func (v *Svc) clientResult(name string, err error) {
	if err == nil {
		return
	}
	task := v.w.S.CurTask().Name
	v.mu.Lock()
	defer v.mu.Unlock()
	for i := len(v.Reqs) - 1; i >= 0; i-- {
		r := v.Reqs[i]
		if r.Name == name && r.Task == task {
			if r.Err == "" {
				r.Err = "client: " + err.Error()
				r.Served = 0
				r.End = v.w.Stamp()
				r.EndT = v.w.S.Now()
			}
			return
		}
	}
}
