package storeworld

import (
	"bytes"
	"encoding/base64"
	"encoding/json"
	"fmt"
	"os"
	"path/filepath"
	"time"

	"github.com/tailscale/setec/client/setec"

	"verifsim/kernel"
)

type taggedOdd struct {
	A string `setec:"db//password"`
	B []byte `setec:"./x"`
	C string `setec:"a/../b"`
}

type taggedStruct struct {
	One   string       `setec:"one"`
	Two   []byte       `setec:"two"`
	Three setec.Secret `setec:"three"`
	Plain int
}

// cacheDoc builds a cache document for names at given versions.
func (w *World) cacheDoc(entries map[string]uint32, lastAccess map[string]int64) string {
	doc := map[string]any{}
	for n, ver := range entries {
		la := int64(0)
		if lastAccess != nil {
			la = lastAccess[n]
		}
		doc[n] = map[string]any{
			"secret":     map[string]any{"Value": base64.StdEncoding.EncodeToString(w.Svc.valueFor(n, ver)), "Version": ver},
			"lastAccess": fmt.Sprint(la),
		}
	}
	b, _ := json.Marshal(doc)
	return string(b)
}

// RunC10 is the store-construction scenario.
func RunC10(s *kernel.Sim) *World {
	w := NewWorld(s, "C10")
	defer w.Finish()
	t := w.T
	s.SetFree(false)

	pool := w.DrawNames(t.Range(1, 5))
	if t.Bool(1, 8) {
		// a program that declares a great many secrets
		nb := []int{31, 32, 33, 40, 64, 65, 100}[t.Choice(7)]
		for i := 0; i < nb; i++ {
			pool = append(pool, fmt.Sprintf("bulk/%03d", i))
		}
		s.Fault("many-declared-secrets")
	}
	var declared []string
	for _, n := range pool {
		declared = append(declared, n)
		if t.Bool(1, 5) {
			declared = append(declared, n) // duplicate
		}
	}
	cfg := setec.StoreConfig{Logf: w.Logf, TimeNow: w.NowFn, PollTicker: w.Ticker}
	// an expiry age must not matter for declared secrets, whatever stamps
	// the cache carries (the documents below carry lastAccess 0)
	cfg.ExpiryAge = []time.Duration{0, 0, time.Minute, time.Hour}[t.Choice(4)]
	uniq := map[string]bool{}
	for _, n := range declared {
		uniq[n] = true
	}
	var ts, ts2 taggedStruct
	var tso taggedOdd
	useStruct := t.Bool(1, 3)
	useOdd := false
	if useStruct {
		// the prefix is "joined to the front" of each tag (path.Join, as
		// documented): spellings of one prefix are one prefix
		pfx := []string{"st", "st", "st/", "st//", "./st", "st/."}[t.Choice(6)]
		cfg.Structs = []setec.Struct{{Value: &ts, Prefix: pfx}}
		for _, n := range []string{"st/one", "st/two", "st/three"} {
			uniq[n] = true
		}
		if t.Bool(1, 4) {
			// tags that are not clean paths
			useOdd = true
			cfg.Structs = append(cfg.Structs, setec.Struct{Value: &tso, Prefix: pfx})
			for _, n := range []string{"st/db/password", "st/x", "st/b"} {
				uniq[n] = true
			}
		}
		if t.Bool(1, 2) {
			// the same name declared twice over: listed and tagged
			declared = append(declared, []string{"st/one", "st/two"}[t.Choice(2)])
		}
		if t.Bool(1, 3) {
			// ... or tagged in two structs
			cfg.Structs = append(cfg.Structs, setec.Struct{Value: &ts2, Prefix: pfx})
		}
	}
	cfg.Secrets = declared
	names := SortedKeys(uniq)
	for _, n := range names {
		w.Svc.Create(n)
		for k := t.Choice(3); k > 0; k-- {
			w.Svc.Bump(n)
		}
	}

	misconfig := 0
	if t.Bool(1, 10) {
		misconfig = 1 + t.Choice(3)
	}
	fileClient := misconfig == 0 && t.Bool(1, 5)
	// cache
	cacheKind := t.Choice(6) // 0 none 1 empty 2 complete 3 partial 4 stale-complete 5 garbage
	cached := map[string]uint32{}
	good := map[string]uint32{} // well-formed entries of an otherwise invalid document: may be used or not
	switch cacheKind {
	case 2, 4:
		for _, n := range names {
			v, _ := w.Svc.Active(n)
			cached[n] = v
		}
	case 3:
		for _, n := range names {
			if t.Bool(1, 2) {
				v, _ := w.Svc.Active(n)
				cached[n] = v
			}
		}
	}
	switch cacheKind {
	case 0:
	case 1:
		w.Cache = w.MemCache("")
	case 5:
		g := []string{"{", "not json", "[1,2]", "\x00\x01", `{"a":`}
		// syntactically valid documents with a wrongly typed entry for a
		// declared name (a foreign or older writer, partial corruption),
		// beside well-formed entries for the others
		for _, n := range names[1:] {
			v, _ := w.Svc.Active(n)
			good[n] = v
		}
		doc := w.cacheDoc(good, nil)
		for _, bad := range []string{`17`, `"x"`, `[1]`, `{"secret":17,"lastAccess":"0"}`, `{"secret":{"Value":"AAAA","Version":"one"},"lastAccess":"0"}`,
			`{"secret":{"Value":17,"Version":1},"lastAccess":"0"}`, `{"secret":{"Value":"AAAA","Version":1},"lastAccess":0}`, `true`} {
			nj, _ := json.Marshal(names[0])
			if doc == "{}" {
				g = append(g, `{`+string(nj)+`:`+bad+`}`)
			} else {
				g = append(g, `{`+string(nj)+`:`+bad+`,`+doc[1:], doc[:len(doc)-1]+`,`+string(nj)+`:`+bad+`}`)
			}
		}
		w.Cache = w.MemCache(g[t.Choice(len(g))])
	default:
		w.Cache = w.MemCache(w.cacheDoc(cached, nil))
	}
	if cacheKind == 4 {
		for _, n := range names {
			w.Svc.Bump(n) // the cache is now stale
		}
	}
	if w.Cache != nil {
		cfg.Cache = w.Cache
		if t.Bool(1, 10) {
			w.Cache.ReadErr = true
			cached = map[string]uint32{}
		}
	}
	// service script
	hangPossible := false
	var deadline time.Duration
	if t.Bool(1, 2) {
		deadline = []time.Duration{50 * time.Millisecond, 500 * time.Millisecond, 3 * time.Second, 10 * time.Second, 40 * time.Second}[t.Choice(5)]
		deadline += 333 * time.Microsecond // never at the same instant as a back-off timer or a latency (Go's select is random among ready cases)
		hangPossible = true
	}
	faulty := t.Bool(2, 3)
	// an outage of many minutes with a caller that set no deadline at all
	longOutage := !hangPossible && faulty && t.Bool(1, 5)
	w.Svc.OpaqueCtxErr = t.Bool(1, 3)
	absentAtFile := map[string]bool{}
	for _, n := range names {
		var sc []Outcome
		if faulty {
			nf := t.Choice(12)
			if t.Bool(1, 8) {
				nf = 40 // a long outage: many consecutive failing rounds
			}
			if longOutage {
				nf = 400
			}
			for i := 0; i < nf; i++ {
				o := Outcome{Kind: OutFail}
				switch t.Choice(6) {
				case 0:
					o = Outcome{Kind: OutOK, Latency: time.Duration(t.Range(1, 3000))*time.Millisecond + 500*time.Microsecond}
				case 1:
					if hangPossible {
						o = Outcome{Kind: OutHang}
					}
				case 2:
					o.Latency = time.Duration(t.Range(1, 2000))*time.Millisecond + 500*time.Microsecond
				case 3:
					o = Outcome{Kind: OutTimeout}
					if t.Bool(1, 2) {
						o.Latency = time.Duration(t.Range(1, 2000))*time.Millisecond + 500*time.Microsecond
					}
				}
				if longOutage && o.Kind == OutOK {
					o = Outcome{Kind: OutFail} // nothing gets through for minutes
				}
				sc = append(sc, o)
			}
		}
		w.Svc.Script[n] = sc
		if fileClient && t.Bool(1, 6) {
			absentAtFile[n] = true
		}
	}
	var client setec.StoreClient = w.Svc
	if fileClient {
		w.Dir, _ = os.MkdirTemp(scratchRoot(), "verif-store-")
		ent := map[string]uint32{}
		for _, n := range names {
			if !absentAtFile[n] {
				v, _ := w.Svc.Active(n)
				ent[n] = v
			}
		}
		p := filepath.Join(w.Dir, "secrets.json")
		os.WriteFile(p, []byte(w.cacheDoc(ent, nil)), 0o600)
		fc, err := setec.NewFileClient(p)
		if err != nil {
			w.Fail("harness", "NewFileClient: %v", err)
			return w
		}
		client = fc
	}
	cfg.Client = client
	switch misconfig {
	case 1:
		cfg.Client = nil
	case 2:
		cfg.Secrets, cfg.Structs, cfg.AllowLookup = nil, nil, false
	case 3:
		cfg.Secrets = append(cfg.Secrets, "")
	}
	w.Tracef("config declared=%q struct=%v cache=%d cached=%v fileClient=%v absent=%v misconfig=%d deadline=%v faulty=%v",
		declared, useStruct, cacheKind, cached, fileClient, absentAtFile, misconfig, deadline, faulty)
	for _, n := range names {
		if len(w.Svc.Script[n]) > 0 {
			w.Tracef("script %q: %v", n, w.Svc.Script[n])
		}
	}

	// ---- run the constructor ----
	var (
		done    bool
		st      *setec.Store
		cerr    error
		retT    time.Duration
		startT  = s.Now()
		retReqs int
	)
	ctx, cancel := w.Ctx(deadline)
	defer cancel()
	w.Spawn("ctor", func(*kernel.Task) {
		st, cerr = setec.NewStore(ctx, cfg)
		w.Gate()
		if st != nil {
			w.Store = st
		}
		retT = s.Now()
		retReqs = w.Svc.NumReqs()
		done = true
		w.Tracef("NewStore returned err=%v", cerr)
	})
	horizon := 90 * time.Second
	maxSteps := 4000
	if deadline > 0 {
		horizon = deadline + 5*time.Second
	}
	if longOutage {
		horizon = 9 * time.Minute
		maxSteps = 40000
		s.Fault("outage-of-many-minutes")
	}
	steps := 0
	for ; !done && !s.Failed() && steps < maxSteps && s.Now()-startT < horizon; steps++ {
		_, en := s.Tickets()
		if len(en) > 0 {
			s.Release(en[t.Choice(len(en))])
			continue
		}
		s.Advance([]time.Duration{time.Millisecond, 10 * time.Millisecond, 100 * time.Millisecond, time.Second, 5 * time.Second}[t.Weighted([]int{2, 2, 3, 3, 2})])
	}
	w.Ops = w.Svc.NumReqs() + 1
	if s.Failed() {
		return w
	}
	reqs := w.Svc.ReqsSince(0)
	if !done {
		retReqs = len(reqs)
	}
	reqs = reqs[:retReqs]

	// ---- oracles ----
	if misconfig != 0 {
		switch {
		case !done:
			w.Fail("misconfig", "misconfigured NewStore (kind %d) did not return", misconfig)
		case cerr == nil:
			w.Fail("misconfig", "misconfigured NewStore (kind %d) succeeded", misconfig)
		case retT != startT || len(reqs) != 0:
			w.Fail("misconfig", "misconfigured NewStore (kind %d) took %v and %d requests before failing", misconfig, retT-startT, len(reqs))
		}
		return w
	}
	if done && cerr != nil && st != nil {
		w.Fail("result", "NewStore returned both an error and a store")
	}
	// deadline
	if deadline > 0 {
		dl := startT + deadline
		if !done && steps >= maxSteps && s.Now() >= dl {
			w.Fail("deadline", "context ended at t=%v but NewStore is still running %d scheduler steps later without letting time pass (t=%v)", dl, steps, s.Now())
		}
		if !done && s.Now() > dl+time.Second {
			w.Fail("deadline", "context ended at t=%v but NewStore had not returned by t=%v", dl, s.Now())
		}
		if done && retT > dl+time.Second {
			w.Fail("deadline", "context ended at t=%v but NewStore returned only at t=%v (err=%v)", dl, retT, cerr)
		}
		if done && cerr == nil && retT > dl {
			// succeeded after the deadline: only legal if it had everything
		}
	}
	if fileClient {
		anyAbsent := false
		for _, n := range names {
			if absentAtFile[n] {
				if _, ok := cached[n]; !ok || cacheKind == 5 {
					anyAbsent = true
				}
			}
		}
		if anyAbsent {
			if !done || cerr == nil {
				w.Fail("fileclient", "a declared secret is absent from the file-backed client but NewStore did not fail (done=%v err=%v)", done, cerr)
			} else if retT != startT {
				w.Fail("fileclient", "with a file-backed client and an absent declared secret NewStore took %v to fail, want at once", retT-startT)
			}
			return w
		}
	}
	// no re-fetch; back-off bound; cached names not requested
	got := map[string]bool{}
	var prevEnd time.Duration = -1
	for _, r := range reqs {
		if !uniq[r.Name] {
			w.Fail("declared", "NewStore asked the service for %q, which is not one of the declared secrets %q", r.Name, names)
			break
		}
		if got[r.Name] {
			w.Fail("refetch", "secret %q was requested again (request #%d) after it had been obtained", r.Name, r.Index)
		}
		if _, ok := cached[r.Name]; ok && cacheKind >= 2 && cacheKind <= 4 {
			w.Fail("cache-used", "secret %q has a valid cache entry but was requested from the service during construction", r.Name)
		}
		if r.Served != 0 {
			got[r.Name] = true
		}
		if prevEnd >= 0 && r.StartT-prevEnd > 10*time.Second {
			w.Fail("backoff", "pause of %v between construction requests (statement: at most a few seconds)", r.StartT-prevEnd)
		}
		if r.End != 0 {
			prevEnd = r.EndT
		}
	}
	if !done && deadline == 0 {
		// still retrying? (nothing hangs without a deadline)
		if prevEnd >= 0 && s.Now()-prevEnd > 12*time.Second {
			w.Fail("retry", "NewStore stopped retrying: last request ended at t=%v, now t=%v", prevEnd, s.Now())
		}
		w.S.Probe("ctor-still-retrying")
	}
	if done && cerr != nil && deadline == 0 && !fileClient {
		w.Fail("result", "NewStore gave up with %v although its context never ended", cerr)
	}
	if done && cerr != nil && deadline > 0 && retT < startT+deadline {
		w.Fail("result", "NewStore failed with %v at t=%v before its context ended (t=%v)", cerr, retT, startT+deadline)
	}
	if !(done && cerr == nil) {
		return w
	}
	w.S.Probe("ctor-success")
	if len(cached) == len(names) && len(reqs) != 0 {
		w.Fail("cache-used", "complete valid cache but %d requests were made before NewStore returned", len(reqs))
	}
	if len(cached) == len(names) && retT != startT {
		w.Fail("cache-used", "complete valid cache but NewStore took %v", retT-startT)
	}
	for _, n := range names {
		h := st.Secret(n)
		if h == nil {
			w.Fail("value", "NewStore succeeded but declared secret %q has no handle", n)
			return w
		}
		val := h.Get()
		dn, dv, ok := Decode(val)
		if !ok || dn != n {
			w.Fail("value", "declared secret %q yields bytes that are not a value of that secret: %q", n, trunc(val))
			return w
		}
		if cv, ok := cached[n]; ok {
			if dv != cv || !bytes.Equal(val, w.Svc.valueFor(n, cv)) {
				w.Fail("value", "declared secret %q: cache held version %d but the store serves version %d", n, cv, dv)
			}
			continue
		}
		served := false
		if gv, ok := good[n]; ok && dv == gv && bytes.Equal(val, w.Svc.valueFor(n, gv)) {
			served = true
		}
		for _, r := range reqs {
			if r.Name == n && r.Served == dv {
				served = true
			}
		}
		if fileClient {
			av, _ := w.Svc.Active(n)
			served = dv == av
		}
		if !served {
			w.Fail("value", "declared secret %q yields version %d which the service never served during construction", n, dv)
		}
	}
	if useStruct {
		check := func(field string, name string, got []byte) {
			want := st.Secret(name).Get()
			if !bytes.Equal(got, want) {
				w.Fail("value", "struct field %s does not hold the value of %q", field, name)
			}
		}
		if useOdd {
			check("A", "st/db/password", []byte(tso.A))
			check("B", "st/x", tso.B)
			check("C", "st/b", []byte(tso.C))
		}
		check("One", "st/one", []byte(ts.One))
		check("Two", "st/two", ts.Two)
		if ts.Three == nil {
			w.Fail("value", "struct field Three (Secret) was not populated")
		} else {
			check("Three", "st/three", ts.Three.Get())
		}
	}
	return w
}

func trunc(b []byte) []byte {
	if len(b) > 60 {
		return b[:60]
	}
	return b
}

func scratchRoot() string {
	if d := os.Getenv("VERIF_SCRATCH"); d != "" {
		return d
	}
	if st, err := os.Stat("/dev/shm"); err == nil && st.IsDir() {
		return "/dev/shm"
	}
	return os.TempDir()
}
