package storeworld

import (
	"bytes"
	"encoding/json"
	"fmt"
	"strings"
	"time"

	"github.com/tailscale/setec/client/setec"

	"verifsim/kernel"
)

// classifyDoc judges cache contents independently of the store:
// "not-a-document" (not JSON, top level not an object, an entry or its
// "secret" null/missing, empty name), "canonical" is decided by the caller,
// anything else is "in-between".
func classifyDoc(b []byte) string {
	if len(b) == 0 {
		return "empty"
	}
	var top any
	if err := json.Unmarshal(b, &top); err != nil {
		return "not-a-document"
	}
	m, ok := top.(map[string]any)
	if !ok {
		return "not-a-document"
	}
	for k, v := range m {
		e, ok := v.(map[string]any)
		if k == "" || !ok {
			return "not-a-document"
		}
		var sec any
		exact := false
		for ek, ev := range e {
			// Go's decoder matches keys case-insensitively; a case variant of
			// "secret" is neither canonical nor definitely-not-a-document
			if strings.EqualFold(ek, "secret") {
				sec = ev
				exact = exact || ek == "secret"
			}
		}
		if sec == nil && !hasFold(e, "secret") {
			return "not-a-document"
		}
		if sec == nil && exact {
			return "not-a-document"
		}
	}
	return "in-between"
}

func hasFold(m map[string]any, key string) bool {
	for k := range m {
		if strings.EqualFold(k, key) {
			return true
		}
	}
	return false
}

// RunC13Corrupt starts a store on corrupt, truncated, malformed or arbitrary
// cache contents with a healthy service: it must never panic or fail.
func RunC13Corrupt(s *kernel.Sim) *World { return RunCorrupt(s, "C13") }

// RunCorrupt is the corrupt-cache scenario on behalf of prop (C13: no panic,
// no failed start; C12: a handle never panics, whatever the cache held).
func RunCorrupt(s *kernel.Sim, prop string) *World {
	w := NewWorld(s, prop)
	defer w.Finish()
	if prop != "C13" {
		w.OnlyKinds = map[string]bool{"corrupt-panic": true, "corrupt-value": true}
	}
	t := w.T
	s.SetFree(false)
	declared := w.DrawNames(t.Range(1, 3))
	extra := "extra/undeclared"
	ghost := "ghost/unheard-of"
	for _, n := range append(append([]string{}, declared...), extra) {
		w.Svc.Create(n)
		w.Svc.Bump(n)
	}
	ent := map[string]uint32{}
	for _, n := range declared {
		ent[n] = 1 // the cache holds the older version: distinguishable from a fetch
	}
	if t.Bool(1, 2) {
		ent[extra] = 1
	}
	canon := w.cacheDoc(ent, nil)
	doc := canon
	kind := "canonical"
	switch t.Choice(12) {
	case 0:
	case 1:
		doc = canon[:t.Choice(len(canon))]
		kind = "truncated"
	case 2:
		doc = []string{"null", "[]", "17", `"x"`, "true", "{}", "", " ", "nul", "\x00"}[t.Choice(10)]
		kind = "top-level"
	case 3:
		// an entry (or its secret) null / missing / wrong type: of a declared
		// name, of an undeclared one, or of a name nobody has heard of
		cands := append([]string{}, declared...)
		if _, ok := ent[extra]; ok {
			cands = append(cands, extra, extra)
		}
		cands = append(cands, ghost)
		n := cands[t.Choice(len(cands))]
		var m map[string]any
		json.Unmarshal([]byte(canon), &m)
		switch t.Choice(6) {
		case 0:
			m[n] = nil
		case 1:
			m[n] = map[string]any{"lastAccess": "5"}
		case 2:
			m[n] = map[string]any{"secret": nil, "lastAccess": "5"}
		case 3:
			m[""] = m[n]
		case 4:
			m[n] = 17
		case 5:
			m[n] = []any{1}
		}
		b, _ := json.Marshal(m)
		doc = string(b)
		kind = "entry"
	case 4:
		// wrong types / odd numbers inside an otherwise well-shaped entry
		n := declared[t.Choice(len(declared))]
		var m map[string]map[string]any
		json.Unmarshal([]byte(canon), &m)
		sec := m[n]["secret"].(map[string]any)
		switch t.Choice(8) {
		case 0:
			sec["Version"] = "1"
		case 1:
			sec["Version"] = -1
		case 2:
			sec["Version"] = 1e30
		case 3:
			sec["Value"] = "!!!not base64"
		case 4:
			sec["Value"] = 17
		case 5:
			m[n]["lastAccess"] = 12345
		case 6:
			m[n]["lastAccess"] = "-99999999999999999999999"
		case 7:
			sec["Value"] = nil
		}
		b, _ := json.Marshal(m)
		doc = string(b)
		kind = "field"
	case 5:
		b := []byte(canon)
		for k := 0; k < 1+t.Choice(3); k++ {
			b[t.Choice(len(b))] ^= byte(1 << t.Choice(8))
		}
		doc = string(b)
		kind = "flipped"
	case 6:
		doc = string(t.Bytes(t.Choice(24)))
		kind = "arbitrary"
	case 7:
		// duplicate key: the later one wins in Go; either is acceptable
		n := declared[0]
		doc = strings.Replace(canon, "{", fmt.Sprintf("{%q:null,", n), 1)
		kind = "duplicate"
	case 8:
		doc = canon + " trailing"
		kind = "trailing"
	case 9:
		doc = strings.Repeat("[", 2000)
		kind = "deep"
	case 10:
		doc = "{" + strings.Repeat(`"k":{"secret":{"Value":"","Version":1}},`, 50) + `"z":{"secret":{"Value":"","Version":1}}}`
		kind = "many"
	case 11:
		doc = strings.ToLower(canon)
		kind = "lowercase"
	}
	class := classifyDoc([]byte(doc))
	if doc == canon {
		class = "canonical"
	}
	w.Tracef("cache kind=%s class=%s contents=%q", kind, class, trunc([]byte(doc)))
	w.Cache = w.MemCache(doc)
	cfg := w.BaseConfig(declared)
	cfg.Cache = w.Cache
	cfg.AllowLookup = t.Bool(1, 2)
	var st *setec.Store
	var err error
	done := false
	ctx, _ := w.Ctx(0)
	w.Spawn("ctor", func(*kernel.Task) {
		st, err = setec.NewStore(ctx, cfg)
		w.Gate()
		if st != nil {
			w.Store = st
		}
		done = true
	})
	for i := 0; i < 500 && !done && !s.Failed(); i++ {
		_, en := s.Tickets()
		if len(en) > 0 {
			s.Release(en[t.Choice(len(en))])
		} else {
			s.Advance(time.Second)
		}
	}
	w.Ops = 1
	if s.Failed() {
		return w
	}
	if !done || err != nil {
		w.Fail("corrupt-start", "NewStore on cache contents of class %s (%s) with a healthy service did not start: done=%v err=%v; contents %q", class, kind, done, err, trunc([]byte(doc)))
		return w
	}
	reqs := map[string]int{}
	for _, r := range w.Svc.ReqsSince(0) {
		reqs[r.Name]++
	}
	switch class {
	case "not-a-document", "empty":
		for _, n := range declared {
			if reqs[n] == 0 {
				w.Fail("corrupt-ignore", "cache contents are not a well-formed document (%s: %q) but declared secret %q was not fetched from the service", kind, trunc([]byte(doc)), n)
			}
		}
		w.S.Probe("corrupt-ignored")
	case "canonical":
		if len(reqs) != 0 {
			w.Fail("corrupt-ignore", "canonical complete cache document but the service was contacted: %v", reqs)
		}
		w.S.Probe("canonical-used")
	default:
		w.S.Probe("in-between")
	}
	// undeclared names the document mentioned: whatever handle the store is
	// willing to hand out must work, and so must the next poll
	s.SetFree(true)
	w.Svc.NoPark = true
	for _, n := range []string{extra, ghost} {
		var h setec.Secret
		func() {
			defer func() {
				if r := recover(); r != nil && cfg.AllowLookup {
					w.Fail("corrupt-panic", "after start on %s cache (%s), obtaining a handle for %q panicked: %v", class, kind, n, r)
				}
			}()
			if cfg.AllowLookup {
				h, _ = st.LookupSecret(context_bg(), n)
			} else {
				h = st.Secret(n) // panics for a name the store does not know
			}
		}()
		if h == nil {
			continue
		}
		func() {
			defer func() {
				if r := recover(); r != nil {
					w.Fail("corrupt-panic", "after start on %s cache (%s: %q) the store handed out a handle for %q, and calling it panicked: %v", class, kind, trunc([]byte(doc)), n, r)
				}
			}()
			got := h.Get()
			_, sb := w.Svc.Active(n)
			if !bytes.Equal(got, sb) && !bytes.Equal(got, w.Svc.valueFor(n, 1)) && class != "in-between" {
				w.Fail("corrupt-value", "undeclared secret %q serves %q after start on %s cache (%s), neither the cached nor a served value", n, trunc(got), class, kind)
			}
			w.S.Probe("corrupt-undeclared-handle")
		}()
	}
	func() {
		defer func() {
			if r := recover(); r != nil {
				w.Fail("corrupt-panic", "after start on %s cache (%s: %q) a poll panicked: %v", class, kind, trunc([]byte(doc)), r)
			}
		}()
		st.Refresh(context_bg())
	}()
	if s.Failed() {
		return w
	}
	for _, n := range declared {
		h := st.Secret(n)
		if h == nil {
			w.Fail("corrupt-start", "declared secret %q has no handle after start on %s cache", n, class)
			continue
		}
		got := h.Get()
		_, sb := w.Svc.Active(n)
		cached := w.Svc.valueFor(n, 1)
		if !bytes.Equal(got, sb) && !(bytes.Equal(got, cached) && class != "not-a-document" && class != "empty") {
			if class == "in-between" && reqs[n] == 0 {
				// the document was accepted; whatever it decoded to is the
				// cache's value (wrong-typed fields may decode to anything)
				w.S.Probe("in-between-accepted")
				continue
			}
			w.Fail("corrupt-value", "declared secret %q serves %q after start on %s cache (%s), neither the cached nor a served value", n, trunc(got), class, kind)
		}
	}
	return w
}

// RunC11Cadence runs the real time.Ticker under the virtual clock with an
// instantly answering service and measures the gaps between background polls.
func RunC11Cadence(s *kernel.Sim) *World {
	w := NewWorld(s, "C11")
	defer w.Finish()
	t := w.T
	s.SetFree(false)
	w.Svc.NoPark = true
	declared := w.DrawNames(t.Range(1, 3))
	for _, n := range declared {
		w.Svc.Create(n)
	}
	iv := []time.Duration{10 * time.Second, time.Minute, time.Hour, 24 * time.Hour, 7 * time.Second, 90 * time.Minute}[t.Choice(6)]
	cfg := setec.StoreConfig{Client: w.Svc, Secrets: declared, Logf: w.Logf, PollInterval: iv}
	s.SetFree(true) // no parks: the store runs on its own timers
	if t.Bool(1, 2) {
		// a service that takes a noticeable fraction of the interval to answer:
		// polls still happen once per interval, not once per interval + poll time
		w.Svc.Default = Outcome{Latency: iv / time.Duration(t.Range(3, 8)*len(declared))} // a whole round takes at most a third of the interval
		w.Svc.MaxHang = 0
	}
	slow := w.Svc.Default
	w.Svc.Default = Outcome{}
	st, err := setec.NewStore(context_bg(), cfg)
	if err != nil {
		w.Fail("harness", "NewStore: %v", err)
		return w
	}
	w.Svc.Default = slow
	w.Store = st
	t0 := s.Now()
	base := w.Svc.NumReqs()
	rounds := t.Range(3, 8)
	for i := 0; i < rounds*3; i++ {
		time.Sleep(iv/2 + time.Duration(t.Choice(1000))*time.Millisecond)
		if t.Bool(1, 5) {
			w.Svc.Bump(declared[0])
		}
	}
	w.Ops = rounds
	// a round's requests are back to back; a new round begins after an idle gap
	var starts []time.Duration
	prevEnd := time.Duration(-1)
	for _, r := range w.Svc.ReqsSince(0)[base:] {
		if !r.Cond {
			continue
		}
		if prevEnd < 0 || r.StartT > prevEnd+time.Millisecond {
			starts = append(starts, r.StartT)
		}
		if r.EndT > prevEnd {
			prevEnd = r.EndT
		}
	}
	w.Tracef("interval %v, %d background polls at %v", iv, len(starts), starts)
	if len(starts) < 2 {
		w.Fail("cadence", "interval %v: only %d background polls in %v of virtual time", iv, len(starts), s.Now()-t0)
		return w
	}
	lo, hi := iv*9/10, iv*11/10
	if first := starts[0] - t0; first < lo || first > hi {
		w.Fail("cadence", "interval %v: first background poll after %v (want within +/-10%%)", iv, first)
	}
	for i := 1; i < len(starts); i++ {
		if p := starts[i] - starts[i-1]; p < lo || p > hi {
			w.Fail("cadence", "interval %v: %v between consecutive background polls (want within +/-10%%: %v..%v)", iv, p, lo, hi)
			break
		}
	}
	w.S.Probe("cadence-checked")
	return w
}
