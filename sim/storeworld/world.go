package storeworld

import (
	"bytes"
	"context"
	"encoding/json"
	"errors"
	"fmt"
	"math/rand"
	"os"
	"sort"
	"strings"
	"sync"
	"sync/atomic"
	"time"

	"github.com/tailscale/setec/client/setec"

	"verifsim/kernel"
)

// CacheWrite is one Cache.Write received.
type CacheWrite struct {
	Stamp  int64
	Data   []byte
	Err    bool
	Clock  int64 // store wall clock (unix seconds) at the write
	InPoll bool  // a refresh call was in flight
	Task   string
}

// RecCache records writes, can fail, and delegates to an inner cache.
type RecCache struct {
	w          *World
	mu         sync.Mutex
	Inner      setec.Cache
	Writes     []CacheWrite
	Initial    []byte       // contents before the first write
	FailWrites map[int]bool // indices of Write calls that fail
	ReadErr    bool
	Reads      int

	retained    []byte // the slice handed to the last successful Write
	retainedIdx int
}

func (c *RecCache) Write(data []byte) error {
	if c.w.S.CurTask().InRead {
		// a cache write inside a handle read would be I/O on the read path
		c.w.S.Fail(c.w.Prop+".read-blocks", "a handle read wrote the cache")
	}
	// a park point: when (and only when) the store writes without holding its
	// lock, another install's write can overtake this one
	c.w.S.Park("cache", "write", nil, nil, nil)
	c.checkRetained()
	c.mu.Lock()
	idx := len(c.Writes)
	fail := c.FailWrites[idx]
	if !fail {
		c.retained, c.retainedIdx = data, idx
	}
	c.Writes = append(c.Writes, CacheWrite{Stamp: c.w.Stamp(), Data: append([]byte{}, data...), Err: fail,
		Clock: c.w.NowFn().Unix(), InPoll: c.w.InFlight() > 0 || isRoundTask(c.w.S.CurTask().Name), Task: c.w.S.CurTask().Name})
	c.mu.Unlock()
	if fail {
		c.w.S.Fault("cache-write-error")
		return errors.New("sim: cache write failed")
	}
	c.w.S.Log("cache write #%d %d bytes", idx, len(data))
	return c.Inner.Write(data)
}

// checkRetained: the bytes handed to a successful Write are the cache's from
// then on (the package's own MemCache keeps the very slice): they must still
// be what was written.
func (c *RecCache) checkRetained() {
	if c.w.Prop != "C13" && c.w.Prop != "C11" {
		return
	}
	c.mu.Lock()
	defer c.mu.Unlock()
	if c.retained == nil || c.retainedIdx >= len(c.Writes) {
		return
	}
	if want := c.Writes[c.retainedIdx].Data; !bytes.Equal(c.retained, want) {
		c.w.S.Fail(c.w.Prop+".cache-retained", fmt.Sprintf("the cache contents changed after Cache.Write #%d returned: the store modified the bytes it had handed to the cache (a cache may keep the slice, as MemCache does); the cache now holds %q, written was %q",
			c.retainedIdx, trunc(c.retained), trunc(want)))
		c.retained = nil
	}
}

func (c *RecCache) Read() ([]byte, error) {
	c.mu.Lock()
	c.Reads++
	re := c.ReadErr
	c.mu.Unlock()
	if re {
		c.w.S.Fault("cache-read-error")
		return nil, errors.New("sim: cache read failed")
	}
	return c.Inner.Read()
}

// isRoundTask: a poll round runs in a goroutine spawned by Refresh, i.e. a
// child of an explicit refresh task ("refreshNN/k", "final-refreshNN/k") or
// of the poller ("ctorNN/0/k"). The round may outlive its initiating call.
func isRoundTask(name string) bool {
	if strings.HasPrefix(name, "refresh") || strings.HasPrefix(name, "final-refresh") {
		return strings.Contains(name, "/")
	}
	return strings.Count(name, "/") >= 2
}

// LastGood returns the last successfully written document (nil if none).
func (c *RecCache) LastGood() []byte {
	c.mu.Lock()
	defer c.mu.Unlock()
	for i := len(c.Writes) - 1; i >= 0; i-- {
		if !c.Writes[i].Err {
			return c.Writes[i].Data
		}
	}
	return c.Initial // nothing was ever written successfully: the cache still holds what it started with
}

// NumWrites returns the number of Write calls.
func (c *RecCache) NumWrites() int { c.mu.Lock(); defer c.mu.Unlock(); return len(c.Writes) }

// CacheDoc is the documented cache format.
type CacheDoc map[string]*struct {
	Secret *struct {
		Value   []byte
		Version uint32
	} `json:"secret"`
	LastAccess string `json:"lastAccess"`
}

// ParseDoc parses a cache document strictly.
func ParseDoc(b []byte) (CacheDoc, error) {
	var d CacheDoc
	if err := json.Unmarshal(b, &d); err != nil {
		return nil, err
	}
	return d, nil
}

// FakeTicker is the PollTicker seam: the root decides when a poll is due.
type FakeTicker struct {
	w     *World
	ch    chan time.Time
	Dones int
	mu    sync.Mutex
}

func (f *FakeTicker) Chan() <-chan time.Time {
	// called once by the poller goroutine: this names it (as a child of the
	// constructing task), so that the goroutines it spawns get stable names
	f.w.S.CurTask()
	return f.ch
}
func (f *FakeTicker) Stop() {}
func (f *FakeTicker) Done() {
	f.w.S.Gate("poll-done")
	f.mu.Lock()
	f.Dones++
	f.mu.Unlock()
	f.w.tickDone()
}

// World is one run of the client-side world.
type World struct {
	S    *kernel.Sim
	T    *kernel.Tape
	Prop string
	// OnlyKinds, if set, restricts the oracles that count in this run
	OnlyKinds map[string]bool
	failN     int // failures rendered by the in-process HTTP service

	Svc    *Svc
	Cache  *RecCache
	Ticker *FakeTicker
	Store  *setec.Store
	Skew   atomic.Int64 // added to the store's wall clock (ns)
	// UseRealClient routes the store's requests through the real
	// setec.Client and an in-process transport instead of calling the
	// scripted service directly.
	UseRealClient bool

	stamp   atomic.Int64
	running atomic.Int64 // spawned tasks still running
	Trace   []string
	trMu    sync.Mutex
	Ops     int
	cancels []context.CancelFunc
	taskN   int
	Dir     string

	// refresh bookkeeping (C11)
	callsInFlight int
	epochStart    int64
	tickPending   bool
	tickInvoke    int64
	OnTickDone    func(start int64)
	Logs          []string
}

// NewWorld creates the world. Must run inside the bubble.
func NewWorld(s *kernel.Sim, prop string) *World {
	w := &World{S: s, T: s.T, Prop: prop}
	w.Svc = newSvc(w)
	w.Ticker = &FakeTicker{w: w, ch: make(chan time.Time)}
	// poll jitter and audit ids come from math/rand's global source: pin it
	// to the run seed (GODEBUG=randautoseed=0,randseednop=0 in sim processes)
	rand.Seed(int64(s.T.Seed))
	return w
}

// Stamp returns the next global event sequence number.
func (w *World) Stamp() int64 { return w.stamp.Add(1) }

// StampNow returns the current stamp without advancing.
func (w *World) StampNow() int64 { return w.stamp.Load() }

// Tracef appends to the human-readable history and the canonical log.
func (w *World) Tracef(format string, a ...any) {
	msg := fmt.Sprintf(format, a...)
	w.trMu.Lock()
	if len(w.Trace) < 300 {
		w.Trace = append(w.Trace, fmt.Sprintf("t=%v %s", w.S.Now(), msg))
	}
	w.trMu.Unlock()
	w.S.Log("%s", msg)
}

// Fail records a violation of the world's property.
func (w *World) Fail(kind, format string, a ...any) {
	if w.OnlyKinds != nil && !w.OnlyKinds[kind] && kind != "harness" {
		return // another property's business in this scenario
	}
	w.S.Fail(w.Prop+"."+kind, fmt.Sprintf(format, a...))
}

// Logf is the store's log sink.
func (w *World) Logf(format string, a ...any) {
	w.trMu.Lock()
	if len(w.Logs) < 200 {
		w.Logs = append(w.Logs, fmt.Sprintf(format, a...))
	}
	w.trMu.Unlock()
}

// NowFn is the store's TimeNow seam (virtual clock plus skew).
func (w *World) NowFn() time.Time { return time.Now().Add(time.Duration(w.Skew.Load())) }

// Ctx returns a context that teardown cancels; d>0 adds a deadline.
func (w *World) Ctx(d time.Duration) (context.Context, context.CancelFunc) {
	var ctx context.Context
	var cancel context.CancelFunc
	if d > 0 {
		ctx, cancel = context.WithTimeout(context.Background(), d)
	} else {
		ctx, cancel = context.WithCancel(context.Background())
	}
	w.cancels = append(w.cancels, cancel)
	return ctx, cancel
}

// Gate: see kernel.Sim.Gate.
func (w *World) Gate() { w.S.Gate("return") }

// Spawn starts a named task (runs until its first park).
func (w *World) Spawn(kind string, fn func(t *kernel.Task)) {
	w.taskN++
	w.running.Add(1)
	w.S.Go(fmt.Sprintf("%s%02d", kind, w.taskN), func(t *kernel.Task) {
		defer w.running.Add(-1)
		fn(t)
	})
}

// MemCache returns a recording cache over a MemCache with initial contents.
func (w *World) MemCache(initial string) *RecCache {
	return &RecCache{w: w, Inner: setec.NewMemCache(initial), Initial: []byte(initial), FailWrites: map[int]bool{}}
}

// Action is one option of the root at a step.
type Action struct {
	W    int
	Name string
	Do   func()
}

// Loop is the root loop: each step offers every enabled ticket plus the
// scenario's own actions; the tape picks. It ends when more() is false, a
// violation is recorded, or the step budget is exhausted.
func (w *World) Loop(maxSteps int, ticketW int, more func() bool, extra func() []Action) {
	// In half of the runs the scheduler is "sticky": it prefers to keep
	// running the task it ran last, so that one task can complete several
	// operations while another stays parked in the middle of one. A uniform
	// choice at every step explores such schedules only very rarely.
	sticky := w.T.Bool(1, 2)
	var last *kernel.Task
	for step := 0; step < maxSteps && !w.S.Failed() && more(); step++ {
		_, en := w.S.Tickets()
		var acts []Action
		for _, tk := range en {
			tk := tk
			wt := ticketW
			if sticky && tk.Task == last {
				wt *= 8
			}
			acts = append(acts, Action{W: wt, Name: "run " + tk.String(), Do: func() { last = tk.Task; w.S.Release(tk) }})
		}
		acts = append(acts, extra()...)
		if len(acts) == 0 {
			return
		}
		ws := make([]int, len(acts))
		for i, a := range acts {
			ws[i] = a.W
		}
		acts[w.T.Weighted(ws)].Do()
	}
}

// RunUntilQuiet releases enabled tickets (tape-chosen order) until none is
// left; it does not advance the clock.
func (w *World) RunUntilQuiet(max int) {
	for i := 0; i < max && !w.S.Failed(); i++ {
		_, en := w.S.Tickets()
		if len(en) == 0 {
			return
		}
		w.S.Release(en[w.T.Choice(len(en))])
	}
}

// Tick signals the poll ticker if the poller is ready to receive.
func (w *World) Tick() bool {
	select {
	case w.Ticker.ch <- time.Now():
		w.tickPending = true
		w.tickInvoke = w.Stamp()
		w.callInvoke()
		w.Tracef("tick")
		// let the poller run to its first park
		w.S.Advance(0)
		return true
	default:
		return false
	}
}

func (w *World) tickDone() {
	start := w.tickInvoke
	w.tickPending = false
	w.callReturn()
	if w.OnTickDone != nil {
		w.OnTickDone(start)
	}
}

// callInvoke / callReturn track refresh epochs: maximal intervals during
// which at least one Refresh call (explicit or the poller's) is in flight.
func (w *World) callInvoke() int64 {
	idle := w.FlightsIdle()
	w.trMu.Lock()
	defer w.trMu.Unlock()
	// A round started by an earlier call can outlive that call (its caller's
	// context ended, or the caller has returned while the round still applies
	// its results). A new epoch begins only when no round can be running.
	if w.callsInFlight == 0 && idle {
		w.epochStart = w.stamp.Load()
	}
	w.callsInFlight++
	return w.epochStart
}

func (w *World) callReturn() {
	w.trMu.Lock()
	w.callsInFlight--
	w.trMu.Unlock()
}

// FlightsIdle reports whether no refresh round can be in progress: no
// goroutine spawned by the code under test (rounds, the poller) is parked
// anywhere and no request is in flight at the service.
func (w *World) FlightsIdle() bool {
	all, _ := w.S.Tickets()
	for _, tk := range all {
		if strings.Contains(tk.Task.Name, "/") {
			return false
		}
	}
	w.Svc.mu.Lock()
	defer w.Svc.mu.Unlock()
	for _, r := range w.Svc.Reqs {
		if r.End == 0 {
			return false
		}
	}
	return true
}

// EpochStart returns the start stamp of the current refresh epoch.
func (w *World) EpochStart() int64 { w.trMu.Lock(); defer w.trMu.Unlock(); return w.epochStart }

// InFlight returns the number of refresh calls in flight.
func (w *World) InFlight() int { w.trMu.Lock(); defer w.trMu.Unlock(); return w.callsInFlight }

// Finish tears the world down: the service fails everything, contexts are
// cancelled, the store is closed, every parked goroutine is drained.
func (w *World) Finish() {
	if os.Getenv("VERIF_DEBUG") != "" {
		w.Trace = append(w.Trace, "---- store log ----")
		w.Trace = append(w.Trace, w.Logs...)
	}
	w.S.Closing()
	w.S.SetFree(true)
	w.Svc.Kill()
	for _, c := range w.cancels {
		c()
	}
	w.S.Drain()
	// tasks sleeping on timers (back-off, latencies) finish once time passes
	for i := 0; i < 200 && w.running.Load() > 0; i++ {
		time.Sleep(10 * time.Second)
		w.S.Drain()
	}
	if w.running.Load() > 0 {
		w.S.FailLate(w.Prop+".stuck", fmt.Sprintf("%d task(s) never returned although the service fails every request and every context is cancelled", w.running.Load()))
	}
	if w.Store != nil {
		done := make(chan struct{})
		go func() { w.Store.Close(); close(done) }()
		select {
		case <-done:
		case <-time.After(time.Hour):
			w.S.FailLate(w.Prop+".harness", "Store.Close did not return within an hour of virtual time at teardown")
		}
	}
	w.S.Drain()
	if w.Dir != "" {
		os.RemoveAll(w.Dir)
	}
}

// SortedKeys returns the sorted keys of a map.
func SortedKeys[V any](m map[string]V) []string {
	var out []string
	for k := range m {
		out = append(out, k)
	}
	sort.Strings(out)
	return out
}

// storeNames is the adversarial but valid-UTF-8 pool of secret names.
var storeNames = []string{"alpha", "beta", "dev/gamma", "prod/delta", "a b", "é/ü", "x|y", "a\nb", "k.l", "cfg/json"}

// DrawNames picks n distinct names.
func (w *World) DrawNames(n int) []string {
	perm := make([]int, len(storeNames))
	for i := range perm {
		perm[i] = i
	}
	var out []string
	for i := 0; i < n && i < len(perm); i++ {
		j := i + w.T.Choice(len(perm)-i)
		perm[i], perm[j] = perm[j], perm[i]
		out = append(out, storeNames[perm[i]])
	}
	return out
}
