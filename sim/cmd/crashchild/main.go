// crashchild runs one scripted sequence of real database (or FileCache)
// operations on the main OS thread, bracketing the operation under test with
// two marker stat calls, so that the parent can record, fail or kill every
// file-system system call of that operation through ptrace (strace).
package main

import (
	"bytes"
	"crypto/sha256"
	"encoding/hex"
	"encoding/json"
	"fmt"
	"io"
	"os"
	"path/filepath"
	"runtime"
	"sort"
	"strings"

	"github.com/tailscale/setec/acl"
	"github.com/tailscale/setec/audit"
	"github.com/tailscale/setec/client/setec"
	"github.com/tailscale/setec/db"
	"github.com/tailscale/setec/types/api"
	"github.com/tink-crypto/tink-go/v2/aead"
	"github.com/tink-crypto/tink-go/v2/insecurecleartextkeyset"
	"github.com/tink-crypto/tink-go/v2/keyset"
)

func init() { runtime.LockOSThread() }

// Op is one scripted operation.
type Op struct {
	K string `json:"k"` // put activate delver delete
	N string `json:"n"`
	V []byte `json:"v,omitempty"`
	R uint32 `json:"r,omitempty"`
}

// Script is the child's input.
type Script struct {
	Mode   string `json:"mode"` // "db" | "create" | "cache" | "verify" | "verify-cache" | "genkey"
	Dir    string `json:"dir"`  // state directory
	Key    string `json:"key"`  // cleartext keyset file (outside the state directory)
	Pre    []Op   `json:"pre"`
	Test   *Op    `json:"test"`
	Follow []Op   `json:"follow"`
	Cache  []byte `json:"cache"` // cache mode: the document to write
}

var super = db.Caller{Permissions: acl.Rules{{Action: []acl.Action{"get", "info", "put", "activate", "delete"}, Secret: []acl.Secret{"*"}}}}

func out(v map[string]any) {
	b, _ := json.Marshal(v)
	os.Stdout.Write(append(b, '\n'))
}

func loadKey(path string) (keysetAEAD, error) {
	b, err := os.ReadFile(path)
	if err != nil {
		return nil, err
	}
	h, err := insecurecleartextkeyset.Read(keyset.NewJSONReader(bytes.NewReader(b)))
	if err != nil {
		return nil, err
	}
	return aead.New(h)
}

type keysetAEAD interface {
	Encrypt(pt, ad []byte) ([]byte, error)
	Decrypt(ct, ad []byte) ([]byte, error)
}

// countingKEK counts how often the key-encryption key is consulted.
type countingKEK struct {
	inner keysetAEAD
	n     int
}

func (c *countingKEK) Encrypt(pt, ad []byte) ([]byte, error) { c.n++; return c.inner.Encrypt(pt, ad) }
func (c *countingKEK) Decrypt(ct, ad []byte) ([]byte, error) { c.n++; return c.inner.Decrypt(ct, ad) }

func dump(d *db.DB) (string, error) {
	l, err := d.List(super)
	if err != nil {
		return "", err
	}
	var sb strings.Builder
	for _, i := range l {
		fmt.Fprintf(&sb, "%q act=%d", i.Name, i.ActiveVersion)
		// what the default get and the conditional get serve
		if g, err := d.Get(super, i.Name); err == nil {
			fmt.Fprintf(&sb, " get=%d", g.Version)
		} else {
			fmt.Fprintf(&sb, " get=ERR")
		}
		if _, err := d.GetConditional(super, i.Name, i.ActiveVersion); err != nil && err.Error() == "value not changed" {
			sb.WriteString(" cond=304")
		} else {
			fmt.Fprintf(&sb, " cond=%v", err)
		}
		vs := append([]api.SecretVersion{}, i.Versions...)
		sort.Slice(vs, func(a, b int) bool { return vs[a] < vs[b] })
		for _, v := range vs {
			sv, err := d.GetVersion(super, i.Name, v)
			if err != nil {
				return "", err
			}
			fmt.Fprintf(&sb, " %d=%x", v, sv.Value)
		}
		sb.WriteByte(';')
	}
	return sb.String(), nil
}

func sha(path string) string {
	b, err := os.ReadFile(path)
	if err != nil {
		return "absent"
	}
	h := sha256.Sum256(b)
	return hex.EncodeToString(h[:8])
}

func apply(d *db.DB, op Op) (uint32, error) {
	switch op.K {
	case "put":
		v, err := d.Put(super, op.N, op.V)
		return uint32(v), err
	case "activate":
		return 0, d.Activate(super, op.N, api.SecretVersion(op.R))
	case "delver":
		return 0, d.DeleteVersion(super, op.N, api.SecretVersion(op.R))
	case "delete":
		return 0, d.Delete(super, op.N)
	}
	return 0, fmt.Errorf("bad op %q", op.K)
}

func errStr(err error) string {
	if err == nil {
		return ""
	}
	return err.Error()
}

func main() {
	var sc Script
	in, _ := io.ReadAll(os.Stdin)
	if err := json.Unmarshal(in, &sc); err != nil {
		fmt.Fprintln(os.Stderr, "bad script:", err)
		os.Exit(3)
	}
	path := filepath.Join(sc.Dir, "secrets.db")
	cachePath := filepath.Join(sc.Dir, "cache.json")
	switch sc.Mode {
	case "genkey":
		h, err := keyset.NewHandle(aead.AES256GCMKeyTemplate())
		if err != nil {
			os.Exit(3)
		}
		var kb bytes.Buffer
		insecurecleartextkeyset.Write(h, keyset.NewJSONWriter(&kb))
		os.WriteFile(sc.Key, kb.Bytes(), 0o600)
		return
	case "verify-cache":
		b, err := setec.FileCache(cachePath).Read()
		fi, _ := os.Stat(cachePath)
		mode := ""
		if fi != nil {
			mode = fmt.Sprintf("%o", fi.Mode().Perm())
		}
		out(map[string]any{"ev": "verify", "err": errStr(err), "data": b, "mode": mode})
		return
	}
	rawKEK, err := loadKey(sc.Key)
	if err != nil {
		fmt.Fprintln(os.Stderr, "key:", err)
		os.Exit(3)
	}
	kek := &countingKEK{inner: rawKEK}
	if sc.Mode == "verify" {
		d, err := db.Open(path, kek, audit.New(io.Discard))
		if err != nil {
			out(map[string]any{"ev": "verify", "err": err.Error()})
			return
		}
		dm, derr := dump(d)
		out(map[string]any{"ev": "verify", "err": errStr(derr), "dump": dm})
		return
	}
	if sc.Mode == "cache" {
		fc, err := setec.NewFileCache(cachePath)
		if err != nil {
			os.Exit(3)
		}
		out(map[string]any{"ev": "pre", "sha": sha(cachePath)})
		os.Stat("/verif-marker-begin")
		werr := fc.Write(sc.Cache)
		os.Stat("/verif-marker-end")
		out(map[string]any{"ev": "op", "err": errStr(werr)})
		b, rerr := fc.Read()
		out(map[string]any{"ev": "post", "sha": sha(cachePath), "err": errStr(rerr), "data": b})
		return
	}
	var d *db.DB
	if sc.Mode == "create" {
		// the operation under test is the creation of the database itself
		out(map[string]any{"ev": "pre", "sha": sha(path), "dump": "", "gen": 0})
		os.Stat("/verif-marker-begin")
		d, err = db.Open(path, kek, audit.New(io.Discard))
		os.Stat("/verif-marker-end")
		out(map[string]any{"ev": "op", "err": errStr(err)})
		if err != nil {
			// the running process has no database; a retry must work
			d, err = db.Open(path, kek, audit.New(io.Discard))
			out(map[string]any{"ev": "retry", "err": errStr(err)})
			if err != nil {
				return
			}
		}
	} else {
		d, err = db.Open(path, kek, audit.New(io.Discard))
		if err != nil {
			fmt.Fprintln(os.Stderr, "open:", err)
			os.Exit(3)
		}
		for _, op := range sc.Pre {
			if _, err := apply(d, op); err != nil {
				fmt.Fprintln(os.Stderr, "pre-op failed:", err)
				os.Exit(3)
			}
		}
		dm, _ := dump(d)
		out(map[string]any{"ev": "pre", "sha": sha(path), "dump": dm, "gen": d.WriteGen(), "kek": kek.n})
		os.Stat("/verif-marker-begin")
		ver, operr := apply(d, *sc.Test)
		os.Stat("/verif-marker-end")
		out(map[string]any{"ev": "op", "err": errStr(operr), "ver": ver})
	}
	dm, derr := dump(d)
	out(map[string]any{"ev": "post", "sha": sha(path), "dump": dm, "gen": d.WriteGen(), "err": errStr(derr), "kek": kek.n})
	var res []string
	for _, op := range sc.Follow {
		v, err := apply(d, op)
		res = append(res, fmt.Sprintf("%d/%s", v, errStr(err)))
	}
	dm, derr = dump(d)
	out(map[string]any{"ev": "final", "sha": sha(path), "dump": dm, "gen": d.WriteGen(), "follow": res, "err": errStr(derr), "kek": kek.n})
}
