// Package backupworld drives the real periodic backup loop (server/backup.go)
// against a real db.DB and the real aws-sdk S3 client whose HTTP transport is
// an in-memory bucket, under a virtual clock.
package backupworld

import (
	"bytes"
	"context"
	"crypto/sha256"
	"errors"
	"fmt"
	"io"
	"log"
	"net/http"
	"os"
	"path/filepath"
	"strings"
	"sync"
	"time"

	"github.com/aws/aws-sdk-go-v2/aws"
	"github.com/aws/aws-sdk-go-v2/credentials"
	"github.com/aws/aws-sdk-go-v2/service/s3"
	"github.com/tailscale/setec/acl"
	"github.com/tailscale/setec/audit"
	"github.com/tailscale/setec/db"
	"github.com/tailscale/setec/server"

	"verifsim/dbworld"
	"verifsim/kernel"
)

// Upload is one PutObject received by the bucket.
type Upload struct {
	StartT  time.Duration
	EndT    time.Duration
	Key     string
	Body    []byte
	Outcome int // 0 ok, 1 5xx, 2 transport error, 3 stalled then ok, 4 stalled until the request's context ends
	OK      bool
	Done    bool
	Idx     int
}

// Bucket is the in-memory S3 endpoint (an http.Client for the SDK).
type Bucket struct {
	w       *World
	mu      sync.Mutex
	Uploads []*Upload
	Script  []int
	StallD  time.Duration
	killed  chan struct{}
}

func (b *Bucket) Do(req *http.Request) (*http.Response, error) {
	w := b.w
	var body []byte
	if req.Body != nil {
		body, _ = io.ReadAll(req.Body)
	}
	b.mu.Lock()
	u := &Upload{StartT: w.S.Now(), Key: req.URL.Path, Body: body, Idx: len(b.Uploads)}
	if u.Idx < len(b.Script) {
		u.Outcome = b.Script[u.Idx]
	}
	b.Uploads = append(b.Uploads, u)
	b.mu.Unlock()
	w.S.Log("s3 put #%d %s outcome=%d", u.Idx, u.Key, u.Outcome) // no sizes: ciphertext lengths vary with random key ids
	finish := func(ok bool) {
		w.S.Gate("s3-return")
		b.mu.Lock()
		u.EndT, u.OK, u.Done = w.S.Now(), ok, true
		b.mu.Unlock()
	}
	done := make(chan struct{})
	stop := make(chan struct{})
	go func() {
		select {
		case <-req.Context().Done():
		case <-b.killed:
		case <-stop:
			return
		}
		close(done)
	}()
	ok := w.S.Park("s3", u.Key, nil, u, done)
	close(stop)
	if !ok {
		finish(false)
		if err := req.Context().Err(); err != nil {
			return nil, err
		}
		return nil, errors.New("sim: bucket gone")
	}
	switch u.Outcome {
	case 1:
		w.S.Fault("s3-5xx")
		finish(false)
		return &http.Response{StatusCode: 500, Status: "500 Internal Server Error", Header: http.Header{"Content-Type": {"application/xml"}},
			Body: io.NopCloser(strings.NewReader(`<?xml version="1.0" encoding="UTF-8"?><Error><Code>InternalError</Code><Message>sim</Message><RequestId>1</RequestId></Error>`)), Request: req}, nil
	case 2:
		w.S.Fault("s3-transport-error")
		finish(false)
		return nil, errors.New("sim: connection reset")
	case 3, 4:
		w.S.Fault("s3-stall")
		var tmo <-chan time.Time
		if u.Outcome == 3 {
			tm := time.NewTimer(b.StallD)
			defer tm.Stop()
			tmo = tm.C
		}
		select {
		case <-tmo:
		case <-req.Context().Done():
			finish(false)
			return nil, req.Context().Err()
		case <-b.killed:
			finish(false)
			return nil, errors.New("sim: bucket gone")
		}
	}
	finish(true)
	return &http.Response{StatusCode: 200, Status: "200 OK", Header: http.Header{"Etag": {`"d41d8cd98f00b204e9800998ecf8427e"`}},
		Body: io.NopCloser(strings.NewReader("")), Request: req}, nil
}

// slowRecently: an upload is stalled right now, or a stalled one finished
// less than a minute ago.
func (b *Bucket) slowRecently(now time.Duration) bool {
	b.mu.Lock()
	defer b.mu.Unlock()
	for _, u := range b.Uploads {
		if u.Outcome >= 3 && (!u.Done || now-u.EndT < time.Minute) {
			return true
		}
	}
	return false
}

// stalledNow: an upload is stalled right now.
func (b *Bucket) stalledNow() bool {
	b.mu.Lock()
	defer b.mu.Unlock()
	for _, u := range b.Uploads {
		if u.Outcome >= 3 && !u.Done {
			return true
		}
	}
	return false
}

// World is one backup run.
type World struct {
	Prop   string
	Only   map[string]bool // oracles that count (nil: all)
	S      *kernel.Sim
	T      *kernel.Tape
	Dir    string
	DB     *db.DB
	Bucket *Bucket
	Trace  []string
	Ops    int
	files  map[[32]byte]bool // every complete database file seen
	fileAt []struct {
		t    time.Duration
		hash [32]byte
	}
}

func (w *World) tracef(format string, a ...any) {
	msg := fmt.Sprintf(format, a...)
	if len(w.Trace) < 300 {
		w.Trace = append(w.Trace, fmt.Sprintf("t=%v %s", w.S.Now(), msg))
	}
	w.S.Note("%s", msg)
}

func (w *World) fail(kind, format string, a ...any) {
	if w.Only != nil && !w.Only[kind] {
		return // another property's business in this scenario
	}
	w.S.Fail(w.Prop+"."+kind, fmt.Sprintf(format, a...))
}

func (w *World) snapshotFile() [32]byte {
	b, _ := os.ReadFile(filepath.Join(w.Dir, "secrets.db"))
	h := sha256.Sum256(b)
	if !w.files[h] {
		w.files[h] = true
		w.fileAt = append(w.fileAt, struct {
			t    time.Duration
			hash [32]byte
		}{w.S.Now(), h})
	}
	return h
}

// Run is the C17 scenario.
func Run(s *kernel.Sim) *World { return RunFor(s, "C17", nil) }

// RunFor runs the backup scenario on behalf of prop; only, if non-nil, names
// the oracles that count (C05: the backup task must not need the key service).
func RunFor(s *kernel.Sim, prop string, only map[string]bool) *World {
	log.SetOutput(io.Discard) // backup.go logs through the standard logger
	w := &World{Prop: prop, Only: only, S: s, T: s.T, files: map[[32]byte]bool{}}
	t := s.T
	s.SetFree(true)
	dir, err := os.MkdirTemp(dbworld.ScratchRoot(), "verif-bk-")
	if err != nil {
		s.Fail("harness", err.Error())
		return w
	}
	w.Dir = dir
	defer os.RemoveAll(dir)
	kek := dbworld.NewKEK(0)
	if t.Bool(1, 5) {
		// the configured path is a (relative) symbolic link to a database
		// that lives elsewhere
		os.MkdirAll(filepath.Join(dir, "data"), 0o700)
		if d0, err := db.Open(filepath.Join(dir, "data", "real.db"), kek, audit.New(io.Discard)); err == nil {
			d0.Put(db.Caller{Permissions: acl.Rules{{Action: []acl.Action{"put"}, Secret: []acl.Secret{"*"}}}}, "moved", []byte("before the move"))
			if os.Symlink(filepath.Join("data", "real.db"), filepath.Join(dir, "secrets.db")) == nil {
				s.Fault("db-path-is-symlink")
			}
		}
	}
	d, err := db.Open(filepath.Join(dir, "secrets.db"), kek, audit.New(io.Discard))
	if err != nil {
		s.Fail("harness", err.Error())
		return w
	}
	w.DB = d
	kekBase := kek.Count()
	if t.Bool(1, 3) {
		// the key service is unreachable from now on: a running server,
		// its backups included, does not depend on it
		kek.Outage = true
		s.Fault("kek-outage")
	}
	sup := db.Caller{Permissions: acl.Rules{{Action: []acl.Action{"get", "info", "put", "activate", "delete"}, Secret: []acl.Secret{"*"}}}}
	for i := t.Choice(3); i > 0; i-- {
		d.Put(sup, "seed", []byte(fmt.Sprintf("v%d", i)))
	}
	w.snapshotFile()
	w.Bucket = &Bucket{w: w, killed: make(chan struct{}), StallD: []time.Duration{10 * time.Second, 95 * time.Second, 130 * time.Second, 2 * time.Minute, 6 * time.Minute}[t.Choice(5)]}
	if t.Bool(2, 3) {
		for i := 0; i < 10; i++ {
			w.Bucket.Script = append(w.Bucket.Script, t.Weighted([]int{6, 2, 2, 1, 1}))
		}
	}
	client := s3.New(s3.Options{
		Region:       "us-east-1",
		Credentials:  credentials.NewStaticCredentialsProvider("AKIDSIM", "secret", ""),
		Retryer:      aws.NopRetryer{},
		HTTPClient:   w.Bucket,
		BaseEndpoint: aws.String("https://s3.sim.invalid"),
		UsePathStyle: true,
	})
	w.tracef("config script=%v stall=%v", w.Bucket.Script, w.Bucket.StallD)
	s.SetFree(false)

	// schedule
	horizon := time.Duration(t.Range(40, 240)) * time.Minute
	maxSteps := 6000
	if t.Bool(1, 40) {
		// an outage of the bucket that lasts most of a day: every upload fails
		w.Bucket.Script = nil
		for i := 0; i < 1000; i++ {
			w.Bucket.Script = append(w.Bucket.Script, 1+t.Choice(2))
		}
		horizon = time.Duration(t.Range(13*60, 16*60)) * time.Minute
		maxSteps = 30000
		s.Fault("s3-outage-of-many-hours")
	}
	ctx, cancel := context.WithCancel(context.Background())
	defer cancel()
	// the server's context may also end by itself, at a deadline (a server
	// started with a time limit); never at the same instant as one of the
	// loop's timers (Go's select is random among ready cases)
	var deadlineAt time.Duration = -1
	if t.Bool(1, 4) {
		deadlineAt = horizon + 7*time.Second + 137*time.Millisecond
		var c2 context.CancelFunc
		ctx, c2 = context.WithDeadline(ctx, time.Now().Add(deadlineAt))
		defer c2()
	}
	var loopDone bool
	var loopDoneT time.Duration
	var loopTask *kernel.Task
	s.Go("backup", func(task *kernel.Task) {
		loopTask = task
		server.VerifPeriodicBackup(ctx, d, client, "backups")
		s.Gate("loop-exit")
		loopDone = true
		loopDoneT = s.Now()
	})

	cancelAt := horizon
	earlyCancel := t.Bool(1, 3)
	quietFor := time.Duration(t.Range(4, 35)) * time.Minute
	stopWrites := horizon - quietFor
	if len(w.Bucket.Script) > 0 && t.Bool(1, 2) {
		// a fault on one of the last uploads before the quiet phase
		w.Bucket.Script = append(w.Bucket.Script, make([]int, 40)...)
	}
	diskFaultRun := t.Bool(1, 3)
	nWrite := 0
	writersBusy := 0
	lastWriteT := time.Duration(-1)
	cancelled := false
	var cancelT time.Duration
	sinceAdvance := 0 // park points passed by the backup task at this virtual instant
	lockTakes := 0
	idleFrom := time.Duration(-1)
	idleLocks := 0

	for step := 0; step < maxSteps && !s.Failed(); step++ {
		w.snapshotFile()
		if !cancelled && ctx.Err() != nil {
			// the deadline of the server's context has passed
			cancelled = true
			cancelT = deadlineAt
			w.tracef("the server's context reached its deadline")
			s.Fault("server-context-deadline")
		}
		if loopDone {
			break
		}
		if cancelled && s.Now() > cancelT+2*time.Second {
			break
		}
		_, en := s.Tickets()
		type act struct {
			w  int
			do func()
		}
		var acts []act
		for _, tk := range en {
			tk := tk
			acts = append(acts, act{8, func() {
				if tk.Task == loopTask || strings.HasPrefix(tk.Task.Name, "backup") {
					sinceAdvance++
					if tk.Kind == "lock" {
						lockTakes++
						idleLocks++
					}
					if sinceAdvance > 64 {
						w.fail("spin", "the backup task passed %d park points (database lock acquisitions / uploads) at t=%v without the clock advancing: it busy-loops instead of sleeping", sinceAdvance, s.Now())
						return
					}
				}
				// the disk is full while this writer runs its next stretch: a
				// save in it fails and leaves the file as it was
				full := diskFaultRun && tk.Kind == "lock" && strings.HasPrefix(tk.Task.Name, "writer") && t.Bool(1, 4)
				if full {
					dbworld.SetFileSizeLimit(48)
					s.Fault("disk-full-write")
				}
				s.Release(tk)
				if full {
					dbworld.SetFileSizeLimit(0)
				}
			}})
		}
		wWrite := 2
		if w.Bucket.slowRecently(s.Now()) && len(en) == 0 {
			// writes during and right after a slow upload - drawn at quiet
			// moments, against letting time pass; while tasks are on the move
			// the ordinary weight applies, so that they get to finish and the
			// clock is not starved
			wWrite = 12
		}
		// (at most a few bursts at a time: time only passes when no ticket is
		// enabled, and an unbounded stream of writers would freeze the clock)
		if !cancelled && s.Now() < stopWrites && writersBusy < 3 {
			acts = append(acts, act{wWrite, func() {
				// a burst of writes
				nb := t.Range(1, 3)
				writersBusy++
				nWrite++
				k := nWrite
				w.Ops++
				idleFrom = -1
				w.tracef("write burst %d (%d puts)", k, nb)
				s.Go(fmt.Sprintf("writer%02d", k), func(*kernel.Task) {
					for i := 0; i < nb; i++ {
						name := fmt.Sprintf("name%d", k%3)
						switch (k + i) % 5 {
						case 0:
							// a bulky value: deleting it later shrinks the file
							d.Put(sup, "bulk", bytes.Repeat([]byte{byte('a' + k%26)}, 3000+k))
						case 1:
							d.Delete(sup, "bulk")
						case 2:
							d.Delete(sup, name)
						default:
							d.Put(sup, name, []byte(fmt.Sprintf("value-%d-%d", k, i)))
						}
					}
					writersBusy--
					lastWriteT = s.Now()
				})
			}})
		}
		if len(en) == 0 {
			acts = append(acts, act{6, func() {
				dlt := []time.Duration{time.Second, 10 * time.Second, 59 * time.Second, 61 * time.Second, 5 * time.Minute, time.Hour}[t.Weighted([]int{2, 2, 2, 3, 2, 1})]
				if w.Bucket.slowRecently(s.Now()) {
					dlt = []time.Duration{time.Second, 5 * time.Second, 20 * time.Second}[t.Choice(3)]
				}
				if idleFrom < 0 {
					idleFrom = s.Now()
					idleLocks = 0
				}
				sinceAdvance = 0
				s.Advance(dlt)
			}})
			if !cancelled && earlyCancel && w.Bucket.stalledNow() {
				// the server shuts down while an upload is stalled
				acts = append(acts, act{4, func() {
					cancelled = true
					cancelT = s.Now()
					w.tracef("cancel (during a stalled upload)")
					s.Fault("server-context-cancelled-mid-upload")
					cancel()
					s.Advance(0)
				}})
			}
			if !cancelled && s.Now() >= cancelAt && deadlineAt < 0 {
				acts = append(acts, act{30, func() {
					cancelled = true
					cancelT = s.Now()
					w.tracef("cancel")
					s.Fault("server-context-cancelled")
					cancel()
					s.Advance(0)
				}})
			}
		}
		if len(acts) == 0 {
			break
		}
		ws := make([]int, len(acts))
		for i, a := range acts {
			ws[i] = a.w
		}
		acts[t.Weighted(ws)].do()
		// quiescence over long idle stretches: the loop may look at the
		// database once a minute, not more
		if idleFrom >= 0 && s.Now()-idleFrom >= time.Hour {
			if idleLocks > 400 {
				w.fail("spin", "during an idle hour (t=%v..%v) the backup task took the database lock %d times", idleFrom, s.Now(), idleLocks)
			}
			idleFrom = -1
		}
	}
	w.snapshotFile()
	if n := kek.Count() - kekBase; n != 0 && !s.Failed() && w.Prop == "C05" {
		w.fail("kek", "the key-encryption key was consulted %d times after Open while the server wrote and backed up its database", n)
	}
	if !s.Failed() {
		w.judge(cancelled, cancelT, loopDone, loopDoneT, lastWriteT)
	}
	// teardown. A loop that busy-waits on an unchanged generation never looks
	// at its context; a final write makes it take the branch that does.
	s.Closing()
	cancel()
	close(w.Bucket.killed)
	d.Put(sup, "teardown", []byte(fmt.Sprint(s.Now())))
	s.SetFree(true)
	s.Drain()
	for i := 0; i < 50 && !loopDone; i++ {
		time.Sleep(time.Minute)
		s.Drain()
	}
	return w
}

// retryBound is the bounded-liveness horizon: the statement sets no figure for
// how soon a failed upload is retried or how soon the newest backup catches
// up once writes stop; a quarter of an hour is far beyond the loop's
// once-a-minute rhythm and only flags a task that has stopped trying.
const retryBound = 15 * time.Minute

func (w *World) judge(cancelled bool, cancelT time.Duration, loopDone bool, loopDoneT, lastWriteT time.Duration) {
	s := w.S
	ups := w.Bucket.Uploads
	if len(ups) == 0 {
		w.fail("startup", "no upload was attempted at start-up (t=%v now)", s.Now())
		return
	}
	if ups[0].StartT != 0 {
		w.fail("startup", "the first upload started at t=%v, not at start-up", ups[0].StartT)
	}
	for i, u := range ups {
		h := sha256.Sum256(u.Body)
		if !w.files[h] {
			w.fail("snapshot", "upload #%d (%s, %d bytes) is not a byte-exact copy of any complete database file that existed", i, u.Key, len(u.Body))
			return
		}
		if i > 0 {
			if gap := u.StartT - ups[i-1].StartT; gap < 60*time.Second {
				w.fail("rate", "uploads #%d and #%d started %v apart (at most once a minute)", i-1, i, gap)
			}
			prev := ups[i-1]
			if prev.OK {
				// change-driven: a save must have completed since the previous
				// successful backup iteration began. The iteration samples the
				// generation, reads the file and starts the upload at one
				// virtual instant; a save racing it at that same instant may
				// already be in the body yet still cause one more upload, which
				// is tolerated. A save strictly earlier does not justify it.
				changed := false
				for _, f := range w.fileAt[1:] {
					if f.t >= prev.StartT {
						changed = true
					}
				}
				if !changed {
					w.fail("change-driven", "upload #%d at t=%v follows the successful upload #%d (t=%v) although the database was not written since", i, u.StartT, i-1, prev.StartT)
				}
			}
		}
		s.Probe("upload-judged")
	}
	// retry: a failed upload is retried (within a minute or two) even if
	// nothing is written meanwhile
	endAll := s.Now()
	if cancelled {
		endAll = cancelT
	}
	for i, u := range ups {
		if !u.Done || u.OK {
			continue
		}
		if i+1 < len(ups) {
			if gap := ups[i+1].StartT - u.EndT; gap > retryBound {
				w.fail("retry", "upload #%d failed at t=%v but the next attempt came only %v later", i, u.EndT, gap)
			}
		} else if endAll-u.EndT > retryBound+10*time.Second {
			w.fail("retry", "upload #%d failed at t=%v and was not retried by t=%v", i, u.EndT, endAll)
		}
		s.Probe("failed-upload-judged")
	}
	// convergence: 3 min after the last write and the last fault the newest
	// successful object equals the current file
	cur, _ := os.ReadFile(filepath.Join(w.Dir, "secrets.db"))
	var lastOK *Upload
	lastFaultT := time.Duration(0)
	for _, u := range ups {
		if u.OK {
			lastOK = u
		} else if u.Done && u.EndT > lastFaultT {
			lastFaultT = u.EndT
		}
	}
	quietSince := max(lastWriteT, lastFaultT)
	endT := s.Now()
	if cancelled {
		endT = cancelT
	}
	if endT-quietSince > retryBound+10*time.Second {
		if lastOK == nil || !bytes.Equal(lastOK.Body, cur) {
			w.fail("converge", "writes and faults stopped at t=%v but at t=%v the newest successful backup still differs from the current database file", quietSince, endT)
		} else {
			s.Probe("converged")
		}
	}
	if cancelled && !loopDone && s.Now() <= cancelT+time.Second {
		// the run used up its step budget right at the cancellation: the task
		// has not had a second of virtual time to notice
		s.Probe("terminate-not-judged")
	} else if cancelled {
		if !loopDone {
			w.fail("terminate", "the server's context was cancelled at t=%v but the backup task had not terminated by t=%v", cancelT, s.Now())
		} else if loopDoneT > cancelT+time.Second {
			w.fail("terminate", "the server's context was cancelled at t=%v but the backup task terminated only at t=%v", cancelT, loopDoneT)
		} else {
			s.Probe("terminated")
		}
	}
}
