// verif-instrument rewrites copies of setec's non-test sources so that every
// sync.Mutex Lock/Unlock goes through verifhook.Lock/Unlock and every range
// over a map with ordered keys goes through verifhook.RangeMap. The tree is
// not edited: rewritten copies and an overlay.json for `go build -overlay` are
// written to -out. Edits are textual and single-line, so line numbers in the
// rewritten copies equal those of the originals.
package main

import (
	"encoding/json"
	"flag"
	"fmt"
	"go/ast"
	"go/build"
	"go/importer"
	"go/parser"
	"go/token"
	"go/types"
	"io"
	"os"
	"os/exec"
	"path/filepath"
	"sort"
	"strings"
)

const hookPath = "github.com/tailscale/setec/verifhook"

type edit struct {
	start, end int
	text       string
}

func main() {
	repo := flag.String("repo", "/repo", "repository root")
	out := flag.String("out", "", "output directory")
	pkgs := flag.String("pkgs", "db,audit,server,client/setec", "packages (relative dirs)")
	gocmd := flag.String("go", "go1.26.8", "go command")
	extra := flag.String("extra", "golang.org/x/sync/singleflight", "dependency packages to instrument too (import paths)")
	flag.Parse()
	if *out == "" {
		fatal("missing -out")
	}
	rels := strings.Split(*pkgs, ",")
	// dependency packages are located through go list and overlaid in place
	// (the module cache is not edited: the overlay maps its paths to copies)
	extraDirs := map[string]string{}
	if *extra != "" {
		for _, ip := range strings.Split(*extra, ",") {
			c := exec.Command(*gocmd, "list", "-tags", "verif", "-f", "{{.Dir}}", ip)
			c.Dir = *repo
			c.Stderr = os.Stderr
			ob, err := c.Output()
			if err != nil {
				fatal("go list %s: %v", ip, err)
			}
			extraDirs[ip] = strings.TrimSpace(string(ob))
			rels = append(rels, ip)
		}
	}

	// Export data for all dependencies.
	args := []string{"list", "-export", "-deps", "-tags", "verif", "-f", "{{.ImportPath}}\t{{.Export}}"}
	for _, r := range rels {
		if _, ok := extraDirs[r]; ok {
			args = append(args, r)
		} else {
			args = append(args, "./"+r)
		}
	}
	cmd := exec.Command(*gocmd, args...)
	cmd.Dir = *repo
	cmd.Stderr = os.Stderr
	outb, err := cmd.Output()
	if err != nil {
		fatal("go list -export: %v", err)
	}
	exports := map[string]string{}
	for _, line := range strings.Split(string(outb), "\n") {
		p, e, ok := strings.Cut(line, "\t")
		if ok && e != "" {
			exports[p] = e
		}
	}
	fset := token.NewFileSet()
	imp := importer.ForCompiler(fset, "gc", func(path string) (io.ReadCloser, error) {
		e, ok := exports[path]
		if !ok {
			return nil, fmt.Errorf("no export data for %q", path)
		}
		return os.Open(e)
	})

	overlay := map[string]string{}
	extraOut := map[string]string{}
	stats := map[string]int{}
	ctxt := build.Default
	ctxt.BuildTags = append(ctxt.BuildTags, "verif")
	for _, rel := range rels {
		dir := filepath.Join(*repo, rel)
		importPath := "github.com/tailscale/setec/" + rel
		if d, ok := extraDirs[rel]; ok {
			dir, importPath = d, rel
		}
		ents, err := os.ReadDir(dir)
		if err != nil {
			fatal("%v", err)
		}
		var files []*ast.File
		var names []string
		srcs := map[string][]byte{}
		for _, e := range ents {
			n := e.Name()
			if e.IsDir() || !strings.HasSuffix(n, ".go") || strings.HasSuffix(n, "_test.go") {
				continue
			}
			if ok, _ := ctxt.MatchFile(dir, n); !ok {
				continue
			}
			full := filepath.Join(dir, n)
			src, err := os.ReadFile(full)
			if err != nil {
				fatal("%v", err)
			}
			f, err := parser.ParseFile(fset, full, src, parser.ParseComments|parser.SkipObjectResolution)
			if err != nil {
				fatal("parse %s: %v", full, err)
			}
			files = append(files, f)
			names = append(names, full)
			srcs[full] = src
		}
		info := &types.Info{
			Types:      map[ast.Expr]types.TypeAndValue{},
			Selections: map[*ast.SelectorExpr]*types.Selection{},
		}
		conf := types.Config{Importer: imp}
		if _, err := conf.Check(importPath, fset, files, info); err != nil {
			fatal("typecheck %s: %v", rel, err)
		}
		for i, f := range files {
			full := names[i]
			src := srcs[full]
			base := filepath.Base(full)
			var edits []edit
			off := func(p token.Pos) int { return fset.Position(p).Offset }
			site := func(p token.Pos) string {
				return fmt.Sprintf("%s/%s:%d", rel, base, fset.Position(p).Line)
			}
			ast.Inspect(f, func(n ast.Node) bool {
				switch n := n.(type) {
				case *ast.CallExpr:
					sel, ok := n.Fun.(*ast.SelectorExpr)
					if !ok || len(n.Args) != 0 {
						return true
					}
					name := sel.Sel.Name
					if name != "Lock" && name != "Unlock" && name != "RLock" && name != "RUnlock" {
						return true
					}
					s := info.Selections[sel]
					if s == nil || s.Kind() != types.MethodVal {
						return true
					}
					fn, _ := s.Obj().(*types.Func)
					if fn == nil || fn.Pkg() == nil || fn.Pkg().Path() != "sync" {
						return true
					}
					recv := fn.Type().(*types.Signature).Recv().Type().String()
					if recv == "sync.Locker" && (name == "Lock" || name == "Unlock") {
						// a mutex behind the sync.Locker interface: go through the
						// hooks whenever the dynamic value is a hookable lock
						x := string(src[off(sel.X.Pos()):off(sel.X.End())])
						edits = append(edits, edit{off(n.Pos()), off(n.End()),
							fmt.Sprintf("func() { if vhl, ok := any(%s).(verifhook.Locker); ok { verifhook.%s(vhl, %q) } else { %s.%s() } }()", x, name, site(n.Pos()), x, name)})
						stats["Locker."+name]++
						return true
					}
					if recv != "*sync.Mutex" && recv != "*sync.RWMutex" {
						return true
					}
					if (name == "RLock" || name == "RUnlock") && recv != "*sync.RWMutex" {
						return true
					}
					x := string(src[off(sel.X.Pos()):off(sel.X.End())])
					arg := "&(" + x + ")"
					if _, isPtr := info.Types[sel.X].Type.Underlying().(*types.Pointer); isPtr {
						arg = x
					}
					edits = append(edits, edit{off(n.Pos()), off(n.End()),
						fmt.Sprintf("verifhook.%s(%s, %q)", name, arg, site(n.Pos()))})
					stats[name]++
				case *ast.RangeStmt:
					tv, ok := info.Types[n.X]
					if !ok {
						return true
					}
					m, ok := tv.Type.Underlying().(*types.Map)
					if !ok {
						return true
					}
					b, ok := m.Key().Underlying().(*types.Basic)
					if !ok || b.Info()&types.IsOrdered == 0 {
						return true
					}
					x := string(src[off(n.X.Pos()):off(n.X.End())])
					edits = append(edits, edit{off(n.X.Pos()), off(n.X.End()),
						fmt.Sprintf("verifhook.RangeMap(%s, %q)", x, site(n.Pos()))})
					stats["Range"]++
				}
				return true
			})
			if len(edits) == 0 {
				continue
			}
			// import on the package clause line keeps line numbers intact
			pkgEnd := off(f.Name.End())
			edits = append(edits, edit{pkgEnd, pkgEnd, `; import verifhook "` + hookPath + `"`})
			sort.Slice(edits, func(i, j int) bool { return edits[i].start < edits[j].start })
			for k := 1; k < len(edits); k++ {
				if edits[k].start < edits[k-1].end {
					// nested: a Lock call inside a range expression etc. Not expected.
					fatal("%s: overlapping edits at offset %d", full, edits[k].start)
				}
			}
			var sb strings.Builder
			pos := 0
			for _, e := range edits {
				sb.Write(src[pos:e.start])
				sb.WriteString(e.text)
				pos = e.end
			}
			sb.Write(src[pos:])
			dst := filepath.Join(*out, rel, base)
			if err := os.MkdirAll(filepath.Dir(dst), 0o755); err != nil {
				fatal("%v", err)
			}
			if err := os.WriteFile(dst, []byte(sb.String()), 0o644); err != nil {
				fatal("%v", err)
			}
			if _, isExtra := extraDirs[rel]; isExtra {
				// files beneath GOMODCACHE must not be overlaid: the caller
				// copies the module and replaces it (see extra.json)
				extraOut[full] = dst
			} else {
				overlay[full] = dst
			}
		}
	}
	eb, _ := json.MarshalIndent(extraOut, "", " ")
	if err := os.WriteFile(filepath.Join(*out, "extra.json"), eb, 0o644); err != nil {
		fatal("%v", err)
	}
	ob, _ := json.MarshalIndent(map[string]any{"Replace": overlay}, "", " ")
	if err := os.WriteFile(filepath.Join(*out, "overlay.json"), ob, 0o644); err != nil {
		fatal("%v", err)
	}
	sb, _ := json.Marshal(stats)
	fmt.Printf("instrumented %d files %s\n", len(overlay), sb)
}

func fatal(f string, a ...any) {
	fmt.Fprintf(os.Stderr, "verif-instrument: "+f+"\n", a...)
	os.Exit(2)
}
