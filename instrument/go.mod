module verifinstrument

go 1.26
