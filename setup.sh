#!/bin/bash
# Build the instrumenter and warm the Go build cache. Offline, from files on disk only.
set -e
cd "$(dirname "$0")"
export GOFLAGS=-mod=mod GOPROXY=off GOSUMDB=off GOTOOLCHAIN=local
mkdir -p bin evidence replays
(cd instrument && go1.26.8 build -o ../bin/verif-instrument .)
# warm: instrument + compile the simulation binary once
T=$(mktemp -d -p /dev/shm 2>/dev/null || mktemp -d)
trap 'rm -rf "$T"' EXIT
./bin/verif-instrument -repo "${VERIF_REPO:-/repo}" -out "$T/ov" -go go1.26.8 >/dev/null
cp sim/go.mod "$T/go.mod"; XS=$(cd "${VERIF_REPO:-/repo}" && go1.26.8 list -m -f '{{.Dir}}' golang.org/x/sync); cp -r "$XS" "$T/xsync"; chmod -R u+w "$T/xsync"; cp "$T/ov/golang.org/x/sync/singleflight/singleflight.go" "$T/xsync/singleflight/singleflight.go"; echo "replace golang.org/x/sync => $T/xsync" >> "$T/go.mod"; cat "${VERIF_REPO:-/repo}/go.sum" sim/go.sum.extra > "$T/go.sum"
(cd sim && go1.26.8 test -c -modfile="$T/go.mod" -tags verif -vet=off -overlay "$T/ov/overlay.json" -o "$T/sim.test" .)
echo setup ok
