#!/usr/bin/env python3
"""Determinism self-test: for every simulated property run the same seeds in
several fresh processes at GOMAXPROCS 1, 4 and 16 and diff the canonical
event-log digests per (engine, seed). Any difference is a harness defect.

usage: selftest_determinism.py [PROP ...]   (env: DET_RUNS, default 120 per process)
"""
import json, os, subprocess, sys, importlib.util
VERIF = os.path.dirname(os.path.abspath(__file__))
spec = importlib.util.spec_from_loader("check", loader=None)
src = open(os.path.join(VERIF, "check")).read()
ck = type(sys)("check")
ck.__file__ = os.path.join(VERIF, "check")
exec(compile(src.replace('if __name__ == "__main__":\n    main()', ''), ck.__file__, "exec"), ck.__dict__)
sys.modules["check"] = ck
import props

def main():
    sel = sys.argv[1:]
    runs = int(os.environ.get("DET_RUNS", "120"))
    b = ck.Build()
    bad = 0
    try:
        b.prepare()
        binary = b.simtest()
        for prop, cfg in props.PROPS.items():
            if sel and prop not in sel:
                continue
            for st in cfg["stages"]:
                if st["kind"] != "sim" or st.get("race"):
                    continue
                logs = []
                procs = []
                for rep, gmp in enumerate([1, 1, 4, 4, 16, 16, 1, 16]):
                    env = ck.goenv()
                    env.update(GODEBUG="randautoseed=0,randseednop=0", VERIF_PROP=prop, VERIF_SEED="7", VERIF_WORKER=str(rep % 2), VERIF_WORKERS="2",
                               VERIF_BUDGET_S="600", VERIF_MAX_RUNS=str(runs), VERIF_GOMAXPROCS=str(gmp), VERIF_NO_SHRINK="1",
                               VERIF_OUT=os.path.join(b.dir, "det-%s-%d.json" % (prop, rep)), VERIF_DIGEST_LOG=os.path.join(b.dir, "det-%s-%d.log" % (prop, rep)),
                               VERIF_REPLAY_DIR=os.path.join(b.dir, "det-replays"), VERIF_FIXTURES=os.path.join(VERIF, "fixtures"), VERIF_SCRATCH=ck.scratch_root())
                    if st.get("engine"):
                        env["VERIF_ENGINE"] = st["engine"]
                    procs.append((rep, gmp, subprocess.Popen([binary, "-test.run", "^TestWorker$", "-test.timeout", "900s"], env=env,
                                                            stdout=subprocess.DEVNULL, stderr=subprocess.DEVNULL, cwd=b.dir)))
                table = {}
                for rep, gmp, p in procs:
                    p.wait()
                    path = os.path.join(b.dir, "det-%s-%d.log" % (prop, rep))
                    for line in open(path):
                        seed, eng, dig, steps = line.split()
                        table.setdefault((rep % 2, eng, seed), []).append((gmp, dig, steps))
                n = diff = 0
                for key, vals in sorted(table.items()):
                    if len(vals) < 2:
                        continue
                    n += 1
                    if len(set(v[1] for v in vals)) != 1:
                        diff += 1
                        if diff <= 3:
                            print("  DIFF %s %s" % (key, vals))
                print("%s %-22s seeds compared=%d (x%d processes each) differing=%d" % (prop, st.get("engine", "all"), n, 4, diff))
                bad += diff
    finally:
        b.cleanup()
    print("determinism self-test:", "FAILED" if bad else "ok")
    sys.exit(1 if bad else 0)

main()
