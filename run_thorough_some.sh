#!/bin/bash
# thorough tier for a subset: run_thorough_some.sh C08 C17 ...
cd "$(dirname "$0")"; ./setup.sh >/dev/null 2>&1
rc=0
for p in "$@"; do t0=$(date +%s); out=$(VERIF_SEED=3 ./check $p thorough 2>&1); r=$?; echo "$p rc=$r $(( $(date +%s)-t0 ))s $(echo "$out" | tail -1 | cut -c1-200)"; [ $r -ne 0 ] && rc=1; done
exit $rc
