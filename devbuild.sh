#!/bin/bash
# developer helper: build the sim test binary into /dev/shm/vb (not used by checks)
set -e
export GOFLAGS=-mod=mod GOPROXY=off GOSUMDB=off GOTOOLCHAIN=local
B=/dev/shm/vb; mkdir -p $B
/verif/bin/verif-instrument -repo ${VERIF_REPO:-/repo} -out $B/ov >/dev/null
sed "s#=> /repo#=> ${VERIF_REPO:-/repo}#" /verif/sim/go.mod > $B/go.mod; XS=$(cd ${VERIF_REPO:-/repo} && go1.26.8 list -m -f '{{.Dir}}' golang.org/x/sync); rm -rf $B/xsync; cp -r $XS $B/xsync; chmod -R u+w $B/xsync; cp $B/ov/golang.org/x/sync/singleflight/singleflight.go $B/xsync/singleflight/singleflight.go; echo "replace golang.org/x/sync => $B/xsync" >> $B/go.mod; cat ${VERIF_REPO:-/repo}/go.sum /verif/sim/go.sum.extra > $B/go.sum
cd /verif/sim && go1.26.8 test -c -modfile=$B/go.mod -tags verif -vet=off -overlay $B/ov/overlay.json -o $B/sim.test "$@" .
